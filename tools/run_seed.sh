#!/bin/bash
# run_seed.sh <seed-id (e.g. C07-1)> <property>...   : applies /verif/seeded/<id>/patch.diff to a scratch worktree of
# /repo's HEAD and runs the quick checks of the given properties against it (evidence and scratch output are
# redirected, /repo and /verif/evidence are not touched). Prints one line per property.
id=$1; shift
seed=/verif/seeded/$id
WT=/tmp/seedwt-$id
git -C /repo worktree remove --force $WT 2>/dev/null; rm -rf $WT
git -C /repo worktree add -q --detach $WT HEAD || exit 2
cleanup() { git -C /repo worktree remove --force $WT 2>/dev/null; rm -rf $WT /tmp/seedout-$id; }
trap cleanup EXIT
if ! git -C $WT apply --3way $seed/patch.diff 2>/tmp/seedapply-$id.log; then
  if [ -f $seed/patch.rebased.diff ] && git -C $WT apply $seed/patch.rebased.diff 2>>/tmp/seedapply-$id.log; then :; else
  echo "$id APPLY-FAILED $(tail -1 /tmp/seedapply-$id.log)"; exit 1; fi
fi
if grep -q "<<<<<<<" -r $WT --include=*.go 2>/dev/null; then echo "$id APPLY-CONFLICT"; exit 1; fi
for p in "$@"; do
  out=$(VERIF_REPO=$WT VERIF_OUT=/tmp/seedout-$id VERIF_EVIDENCE=/tmp/seedout-$id/ev /verif/bin/vcheck check --property $p --tier ${TIER:-quick} 2>&1)
  v=$(echo "$out" | grep -c "^VIOLATION")
  inc=$(echo "$out" | grep "^INCONCLUSIVE" | head -2 | cut -c1-160 | tr '\n' ';')
  lab=$(echo "$out" | grep "obligation=" | grep "label=" | head -2 | sed 's/.*obligation=\([^ ]*\).*label=\("[^"]*"\).*/\1:\2/' | tr '\n' ' ')
  echo "$id $p violations=$v $lab ${inc:+INCONCLUSIVE: $inc}"
done
