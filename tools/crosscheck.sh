#!/bin/bash
# crosscheck.sh <solver> <property>... : re-runs the quick tier of the given properties with another solver
# (z3-new = z3 5.1, cvc5) into a scratch directory and prints the verdict lines; the registered evidence is not touched.
solver=$1; shift
cd /verif
for p in "$@"; do
  VERIF_SOLVER=$solver VERIF_OUT=/tmp/crosscheck-out VERIF_EVIDENCE=/tmp/crosscheck-out/ev ./bin/vcheck check --property $p --tier quick 2>&1 | grep -E "SUMMARY|VIOLATION|INCONCLUSIVE" | cut -c1-260 | sed "s/^/[$solver] /"
done
rm -rf /tmp/crosscheck-out
