#!/usr/bin/env python3
"""Regenerates /verif/MANIFEST.json from tools/claims.json (per-property texts) and the obligations directory."""
import json, glob, os
root = os.path.dirname(os.path.dirname(os.path.abspath(__file__)))
claims = json.load(open(os.path.join(root, 'tools', 'claims.json')))
obs = []
for f in sorted(glob.glob(os.path.join(root, 'obligations', '*.json'))):
    obs += json.load(open(f))
have = sorted({o['property'] for o in obs})
props = [json.loads(l)['id'] for l in open(os.path.join(root, 'properties.jsonl'))]
checks, na = [], []
for pid in props:
    c = claims.get(pid, {})
    if pid in have and c.get('claimed'):
        checks.append({
            "property_id": pid,
            "quick_cmd": "./bin/vcheck check --property %s --tier quick" % pid,
            "thorough_cmd": "./bin/vcheck check --property %s --tier thorough" % pid,
            "evidence_file": "evidence/%s.json" % pid,
            "replay_cmd_template": "./bin/vcheck replay {path}",
            "engine": "symgo",
            "level_claimed": {"category": "model_checking", "text": c['level_text'], "design_ref": c.get('design_ref', 'DESIGN.md §5 ' + pid)},
            "level_note": c['level_note'],
            "technique": c.get('technique', "bounded symbolic execution of the real Go code (go/ssa → SMT-LIB2 bit-vectors/FP, z3), solver verdict per path; counterexamples replayed natively"),
        })
    else:
        na.append({"property_id": pid, "reason": c.get('na_reason', 'no solver-based check registered yet (machinery under construction); not claimed')})
m = {
    "version": 1,
    "setup_cmd": "cd /verif/engine && GOFLAGS=-mod=mod GOPROXY=off GOSUMDB=off GOTOOLCHAIN=local go1.26.8 build -o /verif/bin/vcheck ./cmd/vcheck",
    "hooks": {
        "guard": "verif",
        "enable": "no source hooks: harnesses live in /verif/harness and are injected into the packages under test through build overlays (go/packages Config.Overlay for the encoder, `go test -overlay -tags verifnative` for native replay); /repo is never modified by a check",
        "baseline_off_cmd": "cd /repo && GOFLAGS=-mod=mod go test -vet=off -count=1 -timeout 25m ./...",
        "source_commits": claims.get('_hook_commits', []),
        "add_only": True,
    },
    "engines": [{
        "name": "symgo",
        "path": "engine/",
        "serves_properties": [c['property_id'] for c in checks],
        "kind_free_text": "path-forking symbolic executor over go/ssa of /repo's current source (generics instantiated), SMT-LIB2 back-end on a persistent z3 process; in-package harnesses via build overlay; bounded schedule exploration for goroutines; native replay of every counterexample",
    }],
    "checks": checks,
    "not_applicable": na,
    "notes": claims.get('_notes', ''),
}
json.dump(m, open(os.path.join(root, 'MANIFEST.json'), 'w'), indent=1)
print("checks:", [c['property_id'] for c in checks], "n/a:", [n['property_id'] for n in na])
