#!/bin/bash
# verify_seed.sh <seed-out-dir> <dest-dir>  : confirms a seeded change in a scratch worktree of /repo's HEAD:
#  (a) full existing suite passes with the patch, (b) demo fails with it, (c) demo passes without it.
# On success copies patch.diff + demo + meta.json into <dest-dir>.
set -u
SD=$1; DEST=$2; PROP=${3:-}
export GOFLAGS=-mod=mod GOPROXY=off
WT=$(mktemp -d /tmp/vseed-XXXXXX); rmdir $WT
git -C /repo worktree add -q --detach $WT HEAD || exit 2
cleanup() { git -C /repo worktree remove --force $WT 2>/dev/null; rm -rf $WT; }
trap cleanup EXIT
cd $WT
DEMO=$SD/zz_seed_demo_test.go
PKGNAME=$(grep -m1 '^package ' $DEMO | awk '{print $2}' | sed 's/_test$//')
CANDS=$(grep -l "^package $PKGNAME\$" $(git ls-files '*.go' | grep -v _test.go) 2>/dev/null | xargs -n1 dirname | sort -u)
N=$(echo "$CANDS" | wc -l)
if [ "$N" != 1 ]; then
  # fall back to directory named in README
  PKGDIR=$(grep -oE '`?(shard|cluster|utils|diskstore|conversion|distance|models|httpapi)[a-z0-9/]*/?`? ' $SD/README.md 2>/dev/null | head -1 | tr -d '` ')
  for c in $CANDS; do if grep -q "$c/" $SD/README.md 2>/dev/null; then PKGDIR=$c; fi; done
else PKGDIR=$CANDS; fi
PKGDIR=${PKGDIR%/}
echo "seed=$SD pkgdir=$PKGDIR"
git apply $SD/patch.diff || { echo "RESULT apply-failed"; exit 1; }
SUITE=$(timeout 1500 go test -vet=off -count=1 ./... 2>&1 | grep -v 'internal/loadhdf5' | grep -E '^(FAIL[[:space:]]+[^[:space:]]|--- FAIL|panic:)' | head -5)
if [ -n "$SUITE" ]; then echo "RESULT suite-fails-with-patch: $SUITE"; exit 1; fi
cp $DEMO $PKGDIR/
W=$(timeout 600 go test -vet=off -count=1 ./$PKGDIR/ -run "$(grep -oE '^func (Test[A-Za-z0-9_]+)' $DEMO | awk '{print $2}' | paste -sd'|')" 2>&1 | tail -30)
echo "$W" | grep -qE '^(FAIL|panic|--- FAIL)|SIGSEGV|fatal error' || { echo "RESULT demo-does-not-fail-with-patch"; echo "$W" | tail -5; exit 1; }
git apply -R $SD/patch.diff
WO=$(timeout 600 go test -vet=off -count=1 ./$PKGDIR/ -run "$(grep -oE '^func (Test[A-Za-z0-9_]+)' $DEMO | awk '{print $2}' | paste -sd'|')" 2>&1 | tail -30)
echo "$WO" | grep -qE '^ok' || { echo "RESULT demo-does-not-pass-without-patch"; echo "$WO" | tail -5; exit 1; }
mkdir -p $DEST
cp $SD/patch.diff $DEST/patch.diff
cp $DEMO $DEST/zz_seed_demo_test.go
[ -f $SD/README.md ] && cp $SD/README.md $DEST/README.md
python3 - "$DEST" "$PROP" "$PKGDIR" <<PY
import json,sys
dest,prop,pkg=sys.argv[1:4]
json.dump({"property":prop,"demo_package_dir":pkg,"confirmed":{"suite_with_patch":"pass (go test -vet=off -count=1 ./..., internal/loadhdf5 build failure ignored as on baseline)","demo_with_patch":"fail","demo_without_patch":"pass"},"needs":"see README.md","caught_by":"(filled in after running the checks)"},open(dest+"/meta.json","w"),indent=1)
PY
echo "RESULT confirmed"
