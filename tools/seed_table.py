#!/usr/bin/env python3
"""Builds seeded/RESULTS.md and fills meta.json (caught_by, what_i_ran) from seed run logs
(lines '<seed-id> <property> violations=<n> <obligation:"label"> ... [INCONCLUSIVE: ...]')."""
import json, os, re, sys, glob
root = os.path.dirname(os.path.dirname(os.path.abspath(__file__)))
logs = sys.argv[1:] or [os.path.join(root, 'seeded', 'runs.log')]
runs = {}
for lg in logs:
    for l in open(lg):
        m = re.match(r'^(C\d+-\d+) (C\d+) violations=(\d+)\s*(.*)$', l.strip())
        if not m:
            m2 = re.match(r'^(C\d+-\d+) (APPLY-\S+)', l.strip())
            if m2:
                runs.setdefault(m2.group(1), {})['_apply'] = m2.group(2)
            continue
        sid, prop, n, rest = m.group(1), m.group(2), int(m.group(3)), m.group(4)
        labels = re.findall(r'([\w-]+:"[^"]*")', rest.split('INCONCLUSIVE:')[0])
        inc = 'INCONCLUSIVE:' in rest
        runs.setdefault(sid, {})[prop] = (n, labels, inc)  # later logs override earlier ones
def needs(readme):
    if not os.path.exists(readme):
        return "see the demonstration test"
    t = open(readme).read()
    m = re.search(r'(?is)(what it needs[^\n]*\n+|needs to manifest[^\n]*\n+|\*\*needs:?\*\*:?)(.{20,600}?)(\n\n|\n#|\Z)', t)
    if m:
        return re.sub(r'\s+', ' ', m.group(2)).strip()[:500]
    return "see README.md"
rows = []
for d in sorted(glob.glob(os.path.join(root, 'seeded', 'C*-*'))):
    sid = os.path.basename(d)
    mp = os.path.join(d, 'meta.json')
    meta = json.load(open(mp)) if os.path.exists(mp) else {"property": sid.split('-')[0]}
    r = runs.get(sid, {})
    caught = {p: v for p, v in r.items() if p != '_apply' and v[0] > 0}
    if caught:
        cb = "; ".join("%s quick: %s" % (p, ", ".join(v[1][:3]) or "%d violation(s)" % v[0]) for p, v in sorted(caught.items()))
        verdict = "caught"
    elif r:
        cb = "not caught by the quick checks run (" + ", ".join(sorted(p for p in r if p != '_apply')) + ")"
        verdict = "missed"
    else:
        cb = "not run"
        verdict = "not run"
    meta['breaks_property'] = meta.get('property', sid.split('-')[0])
    meta['needs'] = needs(os.path.join(d, 'README.md'))
    meta['caught_by'] = cb
    meta['what_i_ran'] = "tools/verify_seed.sh (existing suite with patch: pass; demonstration with patch: fail; without: pass); tools/run_seed.sh %s <properties> (quick tier on a scratch worktree of /repo HEAD with the patch applied)" % sid
    json.dump(meta, open(mp, 'w'), indent=1)
    patch = open(os.path.join(d, 'patch.diff')).read()
    files = sorted(set(re.findall(r'^\+\+\+ b/(\S+)', patch, re.M)))
    rows.append((sid, ", ".join(files), verdict, cb))
with open(os.path.join(root, 'seeded', 'RESULTS.md'), 'w') as f:
    f.write("# Seeded changes and which checks catch them\n\nEach row: a confirmed seeded change (existing suite passes with it, its demonstration fails with it and passes without). Runs are quick-tier checks on a scratch worktree with the patch applied (`tools/run_seed.sh`). A VIOLATION counts only if the counterexample reproduced natively.\n\n")
    n_c = sum(1 for r in rows if r[2] == 'caught'); n_m = sum(1 for r in rows if r[2] == 'missed')
    f.write("Caught: %d, missed: %d, of %d.\n\n| seed | files touched | verdict | by |\n|---|---|---|---|\n" % (n_c, n_m, len(rows)))
    for r in rows:
        f.write("| %s | %s | %s | %s |\n" % (r[0], r[1], r[2], r[3].replace('|', '/')))
print("caught", n_c, "missed", n_m, "total", len(rows))
