#!/bin/bash
# runs the quick (or thorough) command of every claimed check on the current tree; prints one summary line each
tier=${1:-quick}
cd /verif
for p in $(python3 -c "import json; print(' '.join(c['property_id'] for c in json.load(open('MANIFEST.json'))['checks']))"); do
  [ -n "$2" ] && [[ ! " ${@:2} " =~ " $p " ]] && continue
  ./bin/vcheck check --property $p --tier $tier 2>&1 | grep -E "SUMMARY|VIOLATION|INCONCLUSIVE|KNOWN" | cut -c1-300
done
