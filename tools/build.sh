#!/bin/bash
cd /verif/engine && GOFLAGS=-mod=mod GOPROXY=off GOSUMDB=off GOTOOLCHAIN=local go1.26.8 build -o /verif/bin/vcheck ./cmd/vcheck
