package utils

import "github.com/semafind/semadb/models"

// C06(2): sort keys. Values of one sort key are of one kind across the results (int64,
// float64 non-NaN, string) or missing; the documented order is the natural order of the
// kind, missing last, later keys break ties, descending reverses a key (missing stays last).

const (
	kindInt = iota
	kindFloat
	kindString
)

type verifVal struct {
	present bool
	i       int64
	f       float64
	s       string
}

func verifDrawVal(kind int, strLen int) (verifVal, any) {
	v := verifVal{present: nondetBool()}
	if !v.present {
		return v, nil
	}
	switch kind {
	case kindInt:
		v.i = nondetInt64()
		return v, v.i
	case kindFloat:
		v.f = nondetFloat64()
		vassume(v.f == v.f)
		return v, v.f
	default:
		v.s = nondetString(nondetIntRange(0, strLen))
		return v, v.s
	}
}

// reference three-way comparison of two values of the same kind
func verifRefCmp(kind int, a, b verifVal) int {
	switch kind {
	case kindInt:
		if a.i < b.i {
			return -1
		}
		if a.i > b.i {
			return 1
		}
	case kindFloat:
		if a.f < b.f {
			return -1
		}
		if a.f > b.f {
			return 1
		}
	default:
		if a.s < b.s {
			return -1
		}
		if a.s > b.s {
			return 1
		}
	}
	return 0
}

// reference multi-key comparison: <0 if row a must come before row b
func verifRowCmp(kinds []int, desc []bool, a, b []verifVal) int {
	for k := range kinds {
		switch {
		case a[k].present && !b[k].present:
			return -1
		case !a[k].present && b[k].present:
			return 1
		case !a[k].present && !b[k].present:
			continue
		}
		c := verifRefCmp(kinds[k], a[k], b[k])
		if desc[k] {
			c = -c
		}
		if c != 0 {
			return c
		}
	}
	return 0
}

func VerifSortSearchResults() {
	n := nondetIntRange(0, vparam("N", 3))
	nk := nondetIntRange(1, vparam("K", 1))
	nested := vparam("NESTED", 1) == 1
	kinds := make([]int, nk)
	desc := make([]bool, nk)
	props := []string{"a", "n.b", "c"}
	if !nested {
		props[1] = "b"
	}
	opts := make([]models.SortOption, nk)
	for k := range kinds {
		kinds[k] = nondetIntRange(0, 2)
		desc[k] = nondetBool()
		opts[k] = models.SortOption{Property: props[k], Descending: desc[k]}
	}
	rows := make([][]verifVal, n)
	results := make([]models.SearchResult, n)
	for i := range results {
		rows[i] = make([]verifVal, nk)
		data := models.PointAsMap{}
		for k := range kinds {
			v, boxed := verifDrawVal(kinds[k], vparam("STR", 2))
			rows[i][k] = v
			if v.present {
				if props[k] == "n.b" {
					data["n"] = map[string]any{"b": boxed}
				} else {
					data[props[k]] = boxed
				}
			}
		}
		results[i].DecodedData = data
		results[i].NodeId = uint64(i)
	}
	SortSearchResults(results, opts)
	vcover("reached")
	vassert("length-kept", len(results) == n)
	seen := make([]bool, n)
	for i := range results {
		id := int(results[i].NodeId)
		vassert("is-permutation", id >= 0 && id < n && !seen[id])
		if id >= 0 && id < n {
			seen[id] = true
		}
	}
	for i := 0; i+1 < len(results); i++ {
		a, b := rows[int(results[i].NodeId)], rows[int(results[i+1].NodeId)]
		vassert("ordered-by-sort-keys-missing-last", verifRowCmp(kinds, desc, a, b) <= 0)
	}
}

// CompareAny is a consistent three-way comparison (antisymmetric, transitive, reflexive) on
// the value kinds that decoded documents contain, also across kinds - slices.SortFunc needs a
// strict weak order to produce a meaningful result.
func verifDrawAny() any {
	switch nondetIntRange(0, 5) {
	case 0:
		return nondetInt64()
	case 1:
		f := nondetFloat64()
		vassume(f == f)
		return f
	case 2:
		return nondetString(nondetIntRange(0, 2))
	case 3:
		return nondetUint64()
	case 4:
		f := nondetFloat32()
		vassume(f == f)
		return f
	default:
		return int8(nondetByte())
	}
}

func sign(x int) int {
	if x < 0 {
		return -1
	}
	if x > 0 {
		return 1
	}
	return 0
}

func VerifCompareAnyOrder() {
	a, b, c := verifDrawAny(), verifDrawAny(), verifDrawAny()
	ab, ba := sign(CompareAny(a, b)), sign(CompareAny(b, a))
	bc, ac := sign(CompareAny(b, c)), sign(CompareAny(a, c))
	vcover("reached")
	vassert("reflexive", CompareAny(a, a) == 0)
	vassert("antisymmetric", ab == -ba)
	if ab <= 0 && bc <= 0 {
		vassert("transitive", ac <= 0)
	}
	if ab == 0 && bc == 0 {
		vassert("equivalence-transitive", ac == 0)
	}
}

// natural order within a kind
func VerifCompareAnySameKind() {
	kind := nondetIntRange(0, 2)
	a, ba := verifDrawVal(kind, 2)
	b, bb := verifDrawVal(kind, 2)
	vassume(a.present && b.present)
	vcover("reached")
	vassert("compare-any-is-natural-order", sign(CompareAny(ba, bb)) == verifRefCmp(kind, a, b))
	vobserve("cmp", uint64(sign(CompareAny(ba, bb))+1))
}

func VerifAccessNestedProperty() {
	data := map[string]any{"a": int64(1), "n": map[string]any{"b": "x", "m": map[string]any{"z": 2.5}}, "s": "str"}
	vcover("reached")
	v, ok := AccessNestedProperty(data, "a")
	vassert("top-level", ok && v == any(int64(1)))
	v, ok = AccessNestedProperty(data, "n.b")
	vassert("nested", ok && v == any("x"))
	v, ok = AccessNestedProperty(data, "n.m.z")
	vassert("nested-2", ok && v == any(2.5))
	_, ok = AccessNestedProperty(data, "n.q")
	vassert("missing-leaf", !ok)
	_, ok = AccessNestedProperty(data, "q.b")
	vassert("missing-branch", !ok)
	_, ok = AccessNestedProperty(data, "s.b")
	vassert("scalar-is-not-a-map", !ok)
	_, ok = AccessNestedProperty(data, "a.")
	vassert("trailing-dot", !ok)
}
