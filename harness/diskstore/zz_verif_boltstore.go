package diskstore

import (
	"errors"

	"go.etcd.io/bbolt"
)

// ---- C07 / C12 / C08: the bbolt wrapper's transaction discipline. bbolt itself is the
// environment (transaction-level model: one writer, snapshot per transaction, Commit installs or
// fails and rolls back, Close waits for every open transaction; natively the real library on a
// scratch file). Decided for every wrapper call and closure outcome: every transaction is finished
// on every path (otherwise Close - shard unloading - and the next writer block forever), a
// failing or panicking write closure leaves nothing behind, a successful one is visible, and an
// error of the commit itself is reported.

var errVerifClosure = errors.New("closure failed")

func verifBoltStore() (bboltDiskStore, *bbolt.DB) {
	db := vboltdb()
	return bboltDiskStore{bboltDB: db}, db
}

func verifGet(ds bboltDiskStore, key string) (string, bool) {
	var out []byte
	err := ds.Read(func(bm BucketManager) error {
		b, err := bm.Get("b")
		if err != nil {
			return err
		}
		out = b.Get([]byte(key))
		return nil
	})
	vassert("read-ok", err == nil)
	return string(out), out != nil
}

func VerifBoltStoreTransactions() {
	ds, db := verifBoltStore()
	// committed pre-state
	vassume(ds.Write(func(bm BucketManager) error {
		b, err := bm.Get("b")
		if err != nil {
			return err
		}
		return b.Put([]byte("k0"), []byte("old"))
	}) == nil)
	vboltfaults(db, vparam("FAULTS", 1) == 1)
	op := nondetIntRange(0, 3)
	outcome := nondetIntRange(0, 2) // the closure returns nil / returns an error / panics
	var err error
	panicked := false
	func() {
		defer func() {
			if recover() != nil {
				panicked = true
			}
		}()
		switch op {
		case 0:
			err = ds.Write(func(bm BucketManager) error {
				b, gerr := bm.Get("b")
				if gerr != nil {
					return gerr
				}
				if perr := b.Put([]byte("k1"), []byte("new")); perr != nil {
					return perr
				}
				if perr := b.Put([]byte("k0"), []byte("changed")); perr != nil {
					return perr
				}
				switch outcome {
				case 1:
					return errVerifClosure
				case 2:
					panic("closure bug")
				}
				return nil
			})
		case 1:
			err = ds.Read(func(bm BucketManager) error {
				b, gerr := bm.Get("b")
				if gerr != nil {
					return gerr
				}
				_ = b.Get([]byte("k0"))
				switch outcome {
				case 1:
					return errVerifClosure
				case 2:
					panic("closure bug")
				}
				return nil
			})
		case 2:
			path := "/nonexistent-verif-dir/backup.bbolt"
			if outcome == 0 {
				path = vscratchpath()
			}
			err = ds.BackupToFile(path)
		case 3:
			_, err = ds.SizeInBytes()
		}
	}()
	vboltfaults(db, false)
	vcover("reached")
	vassert("every-transaction-is-finished-on-every-path", vboltopentx(db) == 0)
	if op <= 1 {
		vassert("closure-panic-propagates-to-the-caller", panicked == (outcome == 2))
		if outcome == 1 {
			vassert("closure-error-is-returned", err != nil)
		}
	}
	if op == 2 && outcome != 0 {
		vassert("failed-backup-is-reported", err != nil)
	}
	v0, _ := verifGet(ds, "k0")
	_, has1 := verifGet(ds, "k1")
	if op == 0 && outcome == 0 && err == nil {
		vcover("committed")
		vassert("successful-write-is-visible", has1 && v0 == "changed")
	} else {
		vassert("failed-or-panicking-write-leaves-nothing-behind", !has1 && v0 == "old")
	}
	if op == 0 && outcome == 0 && err != nil {
		vcover("commit-failed")
	}
	// the store is still usable and can be closed (unloading a shard closes its store)
	vassert("a-later-write-succeeds", ds.Write(func(bm BucketManager) error {
		b, gerr := bm.Get("b")
		if gerr != nil {
			return gerr
		}
		return b.Put([]byte("k2"), []byte("x"))
	}) == nil)
	vassert("store-closes", ds.Close() == nil)
}
