package diskstore

import "bytes"

// C02(2) / C08(4): RangeScan, PrefixScan and ForEach of both storage backends against one
// oracle: the callback sees exactly the stored keys in range / with the prefix, each once,
// RangeScan and the bbolt scans in ascending key order.

func drawKeys(n, maxLen int) [][]byte {
	keys := make([][]byte, n)
	for i := range keys {
		keys[i] = nondetBytes(nondetIntRange(1, maxLen))
		for j := 0; j < i; j++ {
			vassume(!bytes.Equal(keys[i], keys[j]))
		}
	}
	return keys
}

func makeBucket(backend int, keys [][]byte) Bucket {
	vals := make([][]byte, len(keys))
	for i := range vals {
		vals[i] = []byte{byte(i + 1)}
	}
	if backend == 0 {
		b := NewMemBucket(false)
		for i, k := range keys {
			b.Put(k, vals[i])
		}
		return b
	}
	return bboltBucket{bb: vboltbucket(keys, vals)}
}

func drawBound(maxLen int) []byte {
	if nondetBool() {
		return nil
	}
	return nondetBytes(nondetIntRange(0, maxLen))
}

func VerifRangeScan() {
	backend := vparam("BACKEND", 0)
	n := nondetIntRange(0, vparam("KEYS", 2))
	keys := drawKeys(n, vparam("LEN", 2))
	b := makeBucket(backend, keys)
	start, end := drawBound(vparam("LEN", 2)), drawBound(vparam("LEN", 2))
	inclusive := nondetBool()
	var seen [][]byte
	err := b.RangeScan(start, end, inclusive, func(k, v []byte) error {
		seen = append(seen, append([]byte{}, k...))
		return nil
	})
	vcover("reached")
	vassert("no-error", err == nil)
	want := 0
	for i, k := range keys {
		in := true
		if start != nil {
			c := bytes.Compare(k, start)
			in = in && (c > 0 || (inclusive && c == 0))
		}
		if end != nil {
			c := bytes.Compare(k, end)
			in = in && (c < 0 || (inclusive && c == 0))
		}
		cnt := 0
		for _, s := range seen {
			if bytes.Equal(s, k) {
				cnt++
			}
		}
		if in {
			want++
			vassert("key-in-range-visited-once", cnt == 1)
		} else {
			vassert("key-out-of-range-not-visited", cnt == 0)
		}
		_ = i
	}
	vassert("nothing-else-visited", len(seen) == want)
	for i := 0; i+1 < len(seen); i++ {
		vassert("ascending-order", bytes.Compare(seen[i], seen[i+1]) < 0)
	}
	vobserve("visited", uint64(len(seen)))
}

func VerifPrefixScan() {
	backend := vparam("BACKEND", 0)
	n := nondetIntRange(0, vparam("KEYS", 2))
	keys := drawKeys(n, vparam("LEN", 2))
	b := makeBucket(backend, keys)
	prefix := nondetBytes(nondetIntRange(0, vparam("LEN", 2)))
	var seen [][]byte
	err := b.PrefixScan(prefix, func(k, v []byte) error {
		seen = append(seen, append([]byte{}, k...))
		return nil
	})
	vcover("reached")
	vassert("no-error", err == nil)
	want := 0
	for _, k := range keys {
		cnt := 0
		for _, s := range seen {
			if bytes.Equal(s, k) {
				cnt++
			}
		}
		if bytes.HasPrefix(k, prefix) {
			want++
			vassert("key-with-prefix-visited-once", cnt == 1)
		} else {
			vassert("key-without-prefix-not-visited", cnt == 0)
		}
	}
	vassert("nothing-else-visited", len(seen) == want)
	vobserve("visited", uint64(len(seen)))
}

func VerifForEachGet() {
	backend := vparam("BACKEND", 0)
	n := nondetIntRange(0, vparam("KEYS", 2))
	keys := drawKeys(n, vparam("LEN", 2))
	b := makeBucket(backend, keys)
	probe := nondetBytes(nondetIntRange(1, vparam("LEN", 2)))
	count := 0
	err := b.ForEach(func(k, v []byte) error { count++; return nil })
	vcover("reached")
	vassert("foreach-visits-every-key", err == nil && count == n)
	stored := -1
	for i, k := range keys {
		if bytes.Equal(k, probe) {
			stored = i
		}
	}
	v := b.Get(probe)
	if stored >= 0 {
		vassert("get-returns-stored-value", len(v) == 1 && v[0] == byte(stored+1))
	} else {
		vassert("get-of-absent-key-is-nil", v == nil)
	}
}
