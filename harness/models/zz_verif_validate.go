package models

// ---- C18: schema-aware validation of decoded requests.

func verifSchemaValue() (IndexSchemaValue, uint) {
	v := IndexSchemaValue{}
	sizeFlat, sizeVamana := uint(nondetIntRange(1, 3)), uint(nondetIntRange(1, 3))
	// both parameter blocks may be present whatever the type is (extra blocks are accepted by Validate)
	if nondetBool() {
		v.VectorFlat = &IndexVectorFlatParameters{VectorSize: sizeFlat, DistanceMetric: DistanceEuclidean}
	}
	if nondetBool() {
		v.VectorVamana = &IndexVectorVamanaParameters{VectorSize: sizeVamana, DistanceMetric: DistanceEuclidean, SearchSize: 75, DegreeBound: 64, Alpha: 1.2}
	}
	if nondetBool() {
		v.Type = IndexTypeVectorFlat
		return v, sizeFlat
	}
	v.Type = IndexTypeVectorVamana
	return v, sizeVamana
}

// a vector-indexed field that passes CheckCompatibleMap is a []float32 of the index dimension
func VerifCheckCompatibleMapGuardsDimension() {
	sv, dim := verifSchemaValue()
	vassume(sv.Validate() == nil) // what collection creation accepts
	schema := IndexSchema{"v": sv}
	n := nondetIntRange(0, 4)
	var val any
	switch nondetIntRange(0, 4) {
	case 0:
		a := make([]any, n)
		for i := range a {
			a[i] = float64(i)
		}
		val = a
	case 1:
		val = make([]float32, n)
	case 2:
		val = make([]float64, n)
	case 3:
		val = "memes"
	case 4:
		a := make([]any, n)
		for i := range a {
			a[i] = "x"
		}
		val = a
	}
	m := PointAsMap{"v": val, "other": int64(3)}
	err := schema.CheckCompatibleMap(m)
	vcover("reached")
	if err != nil {
		return
	}
	vec, ok := m["v"].([]float32)
	vassert("accepted-vector-field-is-normalised-to-float32", ok)
	vassert("accepted-vector-has-the-index-dimension", ok && uint(len(vec)) == dim)
}

// scalar fields: accepted values are normalised to the type the indexes cast to
func VerifCheckCompatibleMapNormalisesScalars() {
	schema := IndexSchema{
		"i": {Type: IndexTypeInteger}, "f": {Type: IndexTypeFloat}, "s": {Type: IndexTypeString, String: &IndexStringParameters{}},
		"n.x": {Type: IndexTypeInteger},
	}
	m := PointAsMap{}
	switch nondetIntRange(0, 6) {
	case 0:
		m["i"] = float64(nondetIntRange(-3, 3))
	case 1:
		m["i"] = int(nondetInt64())
	case 2:
		m["i"] = "7"
	case 3:
		m["f"] = float32(1.5)
	case 4:
		m["f"] = int64(2)
	case 5:
		m["s"] = int64(2)
	case 6:
		if nondetBool() {
			m["n"] = map[string]any{"x": float64(4)}
		} else {
			m["n"] = "scalar-in-the-way"
		}
	}
	err := schema.CheckCompatibleMap(m)
	vcover("reached")
	if err != nil {
		return
	}
	if v, ok := m["i"]; ok {
		_, isI := v.(int64)
		vassert("accepted-integer-field-is-int64", isI)
	}
	if v, ok := m["f"]; ok {
		_, isF := v.(float64)
		vassert("accepted-float-field-is-float64", isF)
	}
	if v, ok := m["s"]; ok {
		_, isS := v.(string)
		vassert("accepted-string-field-is-string", isS)
	}
	if nv, ok := m["n"]; ok {
		nm, isM := nv.(map[string]any)
		vassert("accepted-nested-field-lives-in-a-map", isM)
		if isM {
			_, isI := nm["x"].(int64)
			vassert("accepted-nested-integer-is-int64", isI)
		}
	}
}

// request limits: SearchRequest.Validate accepts exactly the documented ranges, never panics
func VerifSearchRequestLimits() {
	offset, limit := nondetInt(), nondetInt()
	nsort := nondetIntRange(0, 11)
	r := SearchRequest{Query: Query{Property: "price", Integer: &SearchIntegerOptions{Value: 1, Operator: OperatorEquals}}, Offset: offset, Limit: limit}
	for i := 0; i < nsort; i++ {
		r.Sort = append(r.Sort, SortOption{Property: "a"})
	}
	err := r.Validate()
	vcover("reached")
	vassert("accepts-exactly-the-documented-ranges", (err == nil) == (offset >= 0 && limit >= 1 && limit <= 100 && nsort <= 10))
	// vector options
	ss, lim := nondetInt(), nondetInt()
	vo := SearchVectorVamanaOptions{Vector: make([]float32, nondetIntRange(0, 2)), Operator: OperatorNear, SearchSize: ss, Limit: lim}
	verr := vo.Validate()
	if verr == nil {
		vassert("accepted-vamana-options-are-in-range", ss >= 25 && ss <= 75 && lim >= 1 && lim <= 75 && len(vo.Vector) >= 1)
	}
	fo := SearchVectorFlatOptions{Vector: make([]float32, nondetIntRange(0, 2)), Operator: OperatorNear, Limit: lim}
	if fo.Validate() == nil {
		vassert("accepted-flat-options-are-in-range", lim >= 1 && lim <= 75 && len(fo.Vector) >= 1)
	}
}
