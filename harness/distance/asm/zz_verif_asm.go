package asm

// Native replay harnesses for counterexamples of the assembly obligations (the kernels have
// no Go body, so these functions are only meaningful natively). Inputs are small integers,
// for which float32 arithmetic is exact: the result must equal the definition exactly.

func verifAsmInputs() (x, y []float32, xi, yi []int64) {
	n := int(nondetInt64())
	vassume(n >= 0 && n <= 4096)
	x, y = make([]float32, n), make([]float32, n)
	xi, yi = make([]int64, n), make([]int64, n)
	for i := 0; i < n; i++ {
		xi[i], yi[i] = nondetInt64(), nondetInt64()
		vassume(xi[i] >= -2 && xi[i] <= 2 && yi[i] >= -2 && yi[i] <= 2)
		x[i], y[i] = float32(xi[i]), float32(yi[i])
	}
	return
}

func VerifAsmDot() {
	x, y, xi, yi := verifAsmInputs()
	var want int64
	for i := range xi {
		want += xi[i] * yi[i]
	}
	vassert("kernel-equals-definition", Dot(x, y) == float32(want))
	vassert("kernel-symmetric-in-its-arguments", Dot(x, y) == Dot(y, x))
}

func VerifAsmEuclid() {
	x, y, xi, yi := verifAsmInputs()
	var want int64
	for i := range xi {
		want += (xi[i] - yi[i]) * (xi[i] - yi[i])
	}
	vassert("kernel-equals-definition", SquaredEuclideanDistance(x, y) == float32(want))
	vassert("kernel-symmetric-in-its-arguments", SquaredEuclideanDistance(x, y) == SquaredEuclideanDistance(y, x))
}
