package distance

// Monitor hook used by shard-level harnesses (C18): every float distance computation reports
// its two operands. Installed over the package-level kernel variables, so it sees whatever
// GetFloatDistanceFn hands out afterwards.
var VerifDistanceMonitor func(x, y []float32)

func VerifInstallDistanceMonitor() {
	origE, origD := squaredEuclideanDistancePureGo, dotProductPureGo
	euclideanDistance = func(x, y []float32) float32 {
		if VerifDistanceMonitor != nil {
			VerifDistanceMonitor(x, y)
		}
		return origE(x, y)
	}
	dotProductImpl = func(x, y []float32) float32 {
		if VerifDistanceMonitor != nil {
			VerifDistanceMonitor(x, y)
		}
		return origD(x, y)
	}
}
