package distance

import (
	"math"
	"math/bits"
)

// same float (bit pattern), so that identical abstract terms compare equal even for NaN
func sameF(a, b float32) bool { return math.Float32bits(a) == math.Float32bits(b) }

// C20(2): bit distances.

// popcount lemma: the SWAR body of math/bits.OnesCount64 equals the sum of the 64 bits.
func verifBitSum(x uint64) int {
	s := 0
	for i := 0; i < 64; i++ {
		s += int((x >> uint(i)) & 1)
	}
	return s
}

func VerifPopcountLemma() {
	x := nondetUint64()
	vcover("reached")
	vassert("onescount64-equals-bit-sum", bits.OnesCount64(x) == verifBitSum(x))
}

// With OnesCount64 summarised by the bit sum (redirect justified by the lemma above):
// hamming and jaccard equal the bit-count definitions over all word values, are symmetric,
// jaccard of two empty sets is 0.
func VerifBitDistances() {
	n := nondetIntRange(1, vparam("WORDS", 2))
	x, y := make([]uint64, n), make([]uint64, n)
	for i := range x {
		x[i], y[i] = nondetUint64(), nondetUint64()
		if m := vparam("MASK", 0); m != 0 {
			// only the bits of MASK may be set (keeps exact floating-point queries small)
			vassume(x[i]&^uint64(m) == 0 && y[i]&^uint64(m) == 0)
		}
	}
	diff, inter, union := 0, 0, 0
	// definitions: number of set bits (bit sum) of the word-wise xor / and / or
	for i := range x {
		diff += verifBitSum(x[i] ^ y[i])
		inter += verifBitSum(x[i] & y[i])
		union += verifBitSum(x[i] | y[i])
	}
	h := hammingDistance(x, y)
	vcover("reached")
	vassert("hamming-equals-number-of-differing-bits", sameF(h, float32(diff)))
	vassert("hamming-symmetric", sameF(hammingDistance(y, x), h))
	j := jaccardDistance(x, y)
	if union == 0 {
		vassert("jaccard-of-empty-sets-is-zero", j == 0)
	} else {
		vassert("jaccard-equals-one-minus-intersection-over-union", sameF(j, 1-float32(inter)/float32(union)))
	}
	vassert("jaccard-symmetric", sameF(jaccardDistance(y, x), j))
}

// C20(3): metric wiring (float arithmetic abstract: which values are combined, not their size)
func VerifFloatMetricWiring() {
	n := nondetIntRange(1, vparam("DIM", 3))
	x, y := make([]float32, n), make([]float32, n)
	for i := range x {
		x[i], y[i] = nondetFloat32(), nondetFloat32()
	}
	var dot, euc float32
	for i := range x {
		dot += x[i] * y[i]
		d := x[i] - y[i]
		euc += d * d
	}
	vcover("reached")
	vassert("pure-go-dot", sameF(dotProductPureGo(x, y), dot))
	vassert("pure-go-euclidean", sameF(squaredEuclideanDistancePureGo(x, y), euc))
	saved := dotProductImpl
	dotProductImpl = dotProductPureGo
	vassert("dot-distance-is-minus-dot", sameF(dotProductDistance(x, y), -dot))
	vassert("cosine-distance-is-one-minus-dot", sameF(cosineDistance(x, y), 1-dot))
	dotProductImpl = saved
	for _, name := range []string{"euclidean", "dot", "cosine", "haversine"} {
		f, err := GetFloatDistanceFn(name)
		vassert("float-metric-known", err == nil && f != nil)
	}
	for _, name := range []string{"hamming", "jaccard"} {
		f, err := GetBitDistanceFn(name)
		vassert("bit-metric-known", err == nil && f != nil)
	}
	_, err := GetFloatDistanceFn("hamming")
	vassert("bit-metric-is-not-a-float-metric", err != nil)
}
