package cluster

import (
	"os"
	"errors"

	"github.com/semafind/semadb/models"
)

// C15(1): distributePoints from arbitrary shard fill levels, point sizes and limits,
// under the stated precondition "a single point fits into an empty shard".
func VerifDistributePoints() {
	const big = int64(1) << 40
	nShards := nondetIntRange(0, vparam("S", 2))
	nPoints := nondetIntRange(0, vparam("P", 3))
	maxSize := nondetInt64()
	maxCount := nondetInt64()
	vassume(maxSize >= 16 && maxSize <= big && maxCount >= 1 && maxCount <= big)
	shards := make([]shardInfo, nShards)
	names := []string{"s0", "s1", "s2", "s3"}
	for i := range shards {
		shards[i] = shardInfo{Id: names[i], Size: nondetInt64(), PointCount: nondetInt64()}
		vassume(shards[i].Size >= 0 && shards[i].Size <= big && shards[i].PointCount >= 0 && shards[i].PointCount <= big)
	}
	points := make([]models.Point, nPoints)
	sizes := make([]int64, nPoints)
	for i := range points {
		points[i].Data = nondetOpaqueBytes(1 << 20)
		sizes[i] = int64(len(points[i].Data) + len(points[i].Id))
		vassume(sizes[i] <= maxSize) // a single point fits an empty shard
	}
	created := 0
	failAt := nondetIntRange(-1, 2) // createShardFn fails on its failAt-th call (-1: never)
	newNames := []string{"n0", "n1", "n2", "n3", "n4"}
	createErr := errors.New("create failed")
	createFn := func() (string, error) {
		if created == failAt {
			return "", createErr
		}
		vassert("bounded-number-of-created-shards", created < len(newNames))
		id := newNames[created]
		created++
		return id, nil
	}
	origShards := append([]shardInfo{}, shards...)
	res, err := distributePoints(shards, points, maxSize, maxCount, createFn)
	vcover("reached")
	if err != nil {
		vassert("error-only-when-creation-failed", failAt >= 0 && created == failAt)
		vassert("error-gives-nil-map", res == nil)
		return
	}
	vassert("no-error-means-no-failed-creation", failAt < 0 || created <= failAt)
	// walk shards in order: existing ones, then created ones
	order := []shardInfo{}
	order = append(order, origShards...)
	for i := 0; i < created; i++ {
		order = append(order, shardInfo{Id: newNames[i]})
	}
	next := 0
	assigned := 0
	for i, sh := range order {
		r, ok := res[sh.Id]
		if !ok {
			vassert("created-shard-receives-points", i < len(origShards))
			continue
		}
		assigned++
		vassert("range-contiguous-in-shard-order", r[0] == next)
		vassert("range-nonempty", r[1] > r[0])
		vassert("range-in-bounds", r[1] <= nPoints)
		cnt := sh.PointCount + int64(r[1]-r[0])
		sz := sh.Size
		for j := r[0]; j < r[1] && j < nPoints; j++ {
			sz += sizes[j]
		}
		vassert("shard-point-count-within-limit", cnt <= maxCount)
		vassert("shard-size-within-limit", sz <= maxSize)
		// greedy: the shard stopped only because the next point would not fit
		if r[1] < nPoints {
			vassert("shard-filled-greedily", cnt+1 > maxCount || sz+sizes[r[1]] > maxSize)
		}
		next = r[1]
	}
	vassert("every-point-assigned", next == nPoints)
	vassert("no-stray-assignments", len(res) == assigned)
	// an existing shard that got nothing could not take the point that was next at its turn
	vobserve("assigned", uint64(assigned))
	vobserve("created", uint64(created))
}

// ---- C13: a node routes over exactly the configured server set. NewNode takes the server list as
// configured - whether or not its own name is in it (a node that has been removed from the cluster
// is started once more with the new list to drain) - and derives its own name from host, domain
// and port.
func VerifNewNodeKeepsServerList() {
	root := verifRootDir()
	pool := []string{"a.cluster:9898", "b.cluster:9898", "c.cluster:9898"}
	n := nondetIntRange(1, 3)
	servers := append([]string{}, pool[:n]...)
	host := []string{"a", "b", "c", "d"}[nondetIntRange(0, 3)] // "d": not in the list
	c, err := NewNode(ClusterNodeConfig{RootDir: root, RpcHost: host, RpcDomain: ".cluster", RpcPort: 9898, Servers: servers,
		ShardManager: ShardManagerConfig{RootDir: root, ShardTimeout: 30}})
	vcover("reached")
	vassert("node-is-created", err == nil && c != nil)
	if err != nil || c == nil {
		return
	}
	vassert("own-name-is-host-domain-port", c.MyHostname == host+".cluster:9898")
	vassert("routing-uses-exactly-the-configured-servers", len(c.Servers) == n)
	for i := range c.Servers {
		if i < n {
			vassert("routing-uses-exactly-the-configured-servers-in-order", c.Servers[i] == pool[i])
		}
	}
	// and so it computes the same owner as any other node with that list
	owner := RendezvousHash("some-user", c.Servers, 1)[0]
	vassert("same-owner-as-the-configured-list-gives", owner == RendezvousHash("some-user", servers, 1)[0])
	if !vsymbolic() {
		c.nodedb.Close()
		os.RemoveAll(root)
	}
}
