package cluster

import (
	"errors"
	"io"
	"net/rpc"
)

// ---- C17(4): the real retry loop of internalRoute (renamed out of the way for the other cluster
// harnesses, here called directly) against a model of the rpc connection layer: dialling and
// client.Go are replaced (textual renames in rpc.go); a connection is alive or dead, a call on a
// dead connection fails with rpc.ErrShutdown without being sent, a call on a live connection is
// answered, answered with an application error, breaks the connection, or hangs until the timer.

type verifConnState struct{ dead bool }

var verifConns map[*rpc.Client]*verifConnState
var verifDelivered, verifAnswered, verifDials int
var verifHealthy bool // the remote server accepts connections and answers every call

func verifDial(network, dest string) (*rpc.Client, error) {
	verifDials++
	if !verifHealthy && nondetBool() {
		return nil, errVerifTransport
	}
	cl := new(rpc.Client)
	verifConns[cl] = &verifConnState{}
	return cl, nil
}

func verifClientGo(cl *rpc.Client, fn string, args any, reply any) *rpc.Call {
	call := &rpc.Call{ServiceMethod: fn, Args: args, Reply: reply, Done: make(chan *rpc.Call, 1)}
	st := verifConns[cl]
	if st.dead {
		call.Error = rpc.ErrShutdown // nothing was sent
		call.Done <- call
		return call
	}
	outcome := 0
	if !verifHealthy {
		outcome = nondetIntRange(0, 3)
	}
	switch outcome {
	case 0: // delivered and answered
		verifDelivered++
		verifAnswered++
		reply.(*RPCGetShardInfoResponse).PointCount = 42
		call.Done <- call
	case 1: // delivered, the remote method returned an error
		verifDelivered++
		call.Error = rpc.ServerError("remote says no")
		call.Done <- call
	case 2: // the connection breaks under the call
		st.dead = true
		call.Error = io.ErrUnexpectedEOF
		call.Done <- call
	case 3: // no answer: the caller's timer decides
	}
	return call
}

func VerifInternalRouteRetries() {
	verifConns = map[*rpc.Client]*verifConnState{}
	verifDelivered, verifAnswered, verifDials = 0, 0, 0
	c := &ClusterNode{Servers: []string{"self", "other"}, MyHostname: "self", rpcClients: map[string]*rpc.Client{}, metrics: newClusterNodeMetrics()}
	c.cfg.RpcRetries = nondetIntRange(1, vparam("RETRIES", 3))
	c.cfg.RpcTimeout = 1
	// the cache may hold a connection to the destination from earlier requests, dead or alive
	if nondetBool() {
		cl := new(rpc.Client)
		verifConns[cl] = &verifConnState{dead: nondetBool()}
		c.rpcClients["other"] = cl
	}
	verifHealthy = nondetBool()
	req := &RPCGetShardInfoRequest{RPCRequestArgs: RPCRequestArgs{Source: "self", Dest: "other"}, ShardId: "s"}
	rep := &RPCGetShardInfoResponse{}
	err := c.verifOrigInternalRoute("ClusterNode.RPCGetShardInfo", req, rep)
	vcover("reached")
	if err == nil {
		vassert("success-is-reported-only-for-a-call-the-remote-answered", verifAnswered == 1 && rep.PointCount == 42)
	} else {
		vassert("an-answered-call-is-not-reported-as-failed", verifAnswered == 0)
	}
	vassert("a-delivered-call-is-not-sent-again", verifDelivered <= 1)
	if errors.Is(err, ErrTimeout) {
		vcover("timeout-path")
	}
	if verifHealthy {
		vassert("a-stale-cached-connection-does-not-fail-a-request-to-a-healthy-server", err == nil)
	}
	if cl, ok := c.rpcClients["other"]; ok && err == nil {
		vassert("a-dead-connection-is-not-left-in-the-cache-after-success", !verifConns[cl].dead)
	}
}
