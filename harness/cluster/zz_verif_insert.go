package cluster

import (
	"errors"

	"github.com/semafind/semadb/models"
)

// ---- C15(2): ClusterNode.InsertPoints against a scripted remote server: the point quota is
// checked before any side effect, an unavailable shard refuses the request, failed ranges are
// exactly the ranges whose insert RPC failed and the accepted ranges add up.

type verifRemote struct {
	counts     map[string]int64 // shard id -> point count
	infoFails  map[string]bool
	insertFail map[string]bool
	created    int
	createFail bool
	inserted   map[string]int
	sideEffect int
	servers    []string
	recordCalls int
	misrouted  int // shard requests addressed to a server that is not the shard's rendezvous owner
	deletedRecords   []string
	deletedShardDirs []string
}

var verifRemoteScript *verifRemote

func (r *verifRemote) addressed(shardId string, args Destinationer) {
	if r.servers != nil && args.Destination() != RendezvousHash(shardId, r.servers, 1)[0] {
		r.misrouted++
	}
}

func (r *verifRemote) handle(remoteFn string, args Destinationer, reply any) error {
	switch remoteFn {
	case "ClusterNode.RPCGetShardInfo":
		a, rep := args.(*RPCGetShardInfoRequest), reply.(*RPCGetShardInfoResponse)
		r.addressed(a.ShardId, args)
		if r.infoFails[a.ShardId] {
			return errVerifTransport
		}
		rep.PointCount, rep.Size = r.counts[a.ShardId], 0
		return nil
	case "ClusterNode.RPCCreateShard":
		rep := reply.(*RPCCreateShardResponse)
		r.sideEffect++
		if r.createFail {
			return errVerifTransport
		}
		rep.ShardId = verifNewShardNames[r.created]
		r.created++
		return nil
	case "ClusterNode.RPCInsertPoints":
		a := args.(*RPCInsertPointsRequest)
		r.addressed(a.ShardId, args)
		r.sideEffect++
		if r.insertFail[a.ShardId] {
			return errVerifTransport
		}
		r.inserted[a.ShardId] += len(a.Points)
		return nil
	case "ClusterNode.RPCCreateCollection":
		a := args.(*RPCCreateCollectionRequest)
		r.addressed(a.Collection.UserId, args)
		r.recordCalls++
		return nil
	case "ClusterNode.RPCListCollections":
		a := args.(*RPCListCollectionsRequest)
		r.addressed(a.UserId, args)
		r.recordCalls++
		return nil
	case "ClusterNode.RPCGetCollection":
		a, rep := args.(*RPCGetCollectionRequest), reply.(*RPCGetCollectionResponse)
		r.addressed(a.UserId, args)
		r.recordCalls++
		rep.Collection = models.Collection{UserId: a.UserId, Id: a.CollectionId}
		return nil
	case "ClusterNode.RPCDeleteCollection":
		a := args.(*RPCDeleteCollectionRequest)
		r.addressed(a.Collection.UserId, args)
		r.recordCalls++
		r.deletedRecords = append(r.deletedRecords, a.Collection.UserId+"/"+a.Collection.Id)
		return nil
	case "ClusterNode.RPCDeleteCollectionShards":
		a, rep := args.(*RPCDeleteCollectionShardsRequest), reply.(*RPCDeleteCollectionShardsResponse)
		r.deletedShardDirs = append(r.deletedShardDirs, a.Collection.UserId+"/"+a.Collection.Id)
		rep.DeletedShardIds = append(rep.DeletedShardIds, a.Collection.ShardIds...)
		return nil
	}
	return errors.New("verif remote: unsupported " + remoteFn)
}

// C16: deleting a collection addresses the record and the shard directories of exactly that user
// and collection on every server involved.
func VerifDeleteCollectionAddressesOwnData() {
	servers := []string{"self", "other"}
	c := &ClusterNode{Servers: servers, MyHostname: "self"}
	r := &verifRemote{counts: map[string]int64{}, infoFails: map[string]bool{}, insertFail: map[string]bool{}, inserted: map[string]int{}}
	verifRemoteScript = r
	verifNodes = map[string]*ClusterNode{}
	defer func() { verifRemoteScript, verifNodes = nil, nil }()
	n := nondetIntRange(0, 2)
	ids := []string{remoteName("s0", servers), remoteName("s1", servers)}[:n]
	col := models.Collection{UserId: remoteName("alice", servers), Id: "archive", ShardIds: ids}
	deleted, err := c.DeleteCollection(col)
	vcover("reached")
	vassert("delete-collection-ok", err == nil)
	vassert("record-of-exactly-this-user-and-collection-deleted", len(r.deletedRecords) == 1 && r.deletedRecords[0] == col.UserId+"/archive")
	for _, d := range r.deletedShardDirs {
		vassert("shard-deletion-addresses-this-users-collection-directory", d == col.UserId+"/archive")
	}
	vassert("shard-servers-contacted-iff-there-are-shards", (len(r.deletedShardDirs) > 0) == (n > 0))
	vassert("deleted-shard-ids-reported", len(deleted) == n)
}

// remoteName returns a key that routing sends to the other server: symbolically by assumption on
// the (uninterpreted) hash, natively by searching names with the real hash.
func remoteName(base string, servers []string) string {
	if vsymbolic() {
		vassume(RendezvousHash(base, servers, 1)[0] == "other")
		return base
	}
	for j := 0; ; j++ {
		name := base + "-" + string(rune('a'+j%26)) + string(rune('a'+(j/26)%26))
		if RendezvousHash(name, servers, 1)[0] == "other" {
			return name
		}
	}
}

// ownedName: as remoteName for an arbitrary owner
func ownedName(base string, servers []string, owner string) string {
	if vsymbolic() {
		vassume(RendezvousHash(base, servers, 1)[0] == owner)
		return base
	}
	for j := 0; ; j++ {
		name := base + string(rune('a'+j%26)) + string(rune('a'+(j/26)%26))
		if RendezvousHash(name, servers, 1)[0] == owner {
			return name
		}
	}
}

var verifNewShardNames []string

func VerifInsertPointsQuota() {
	servers := []string{"self", "other", "third"}[:vparam("SERVERS", 2)]
	c := &ClusterNode{Servers: servers, MyHostname: "self", cfg: ClusterNodeConfig{MaxShardSize: 1 << 40, MaxShardPointCount: int64(nondetIntRange(1, 3))}}
	r := &verifRemote{counts: map[string]int64{}, infoFails: map[string]bool{}, insertFail: map[string]bool{}, inserted: map[string]int{}, servers: servers}
	verifRemoteScript = r
	verifNodes = map[string]*ClusterNode{}
	defer func() { verifRemoteScript, verifNodes = nil, nil }()
	// every shard and the user's record live on the other server (the local shard manager is not part of this obligation)
	nsh := nondetIntRange(0, vparam("SHARDS", 2))
	ids := []string{remoteName("s0", servers), remoteName("s1", servers), remoteName("s2", servers)}[:nsh]
	col := models.Collection{UserId: remoteName("u", servers), Id: "c", ShardIds: ids}
	verifNewShardNames = nil
	for _, k := range []string{"n0", "n1", "n2", "n3", "n4", "n5"} {
		verifNewShardNames = append(verifNewShardNames, remoteName(k, servers))
	}
	total := int64(0)
	anyInfoFail := false
	for _, id := range ids {
		r.counts[id] = int64(nondetIntRange(0, 3))
		total += r.counts[id]
		if nondetBool() {
			r.infoFails[id] = true
			anyInfoFail = true
		}
		vassume(r.counts[id] <= c.cfg.MaxShardPointCount)
	}
	quota := int64(nondetIntRange(0, 8))
	col.UserPlan.MaxCollectionPointCount = quota
	np := nondetIntRange(1, vparam("POINTS", 3))
	points := make([]models.Point, np)
	for i := range points {
		points[i].Id = nondetUUID()
	}
	failShard := nondetIntRange(-1, 1) // which receiving shard's insert RPC fails (by order of use), -1: none
	order := append(append([]string{}, ids...), verifNewShardNames...)
	if failShard >= 0 {
		r.insertFail[order[failShard]] = true
	}
	failed, err := c.InsertPoints(col, points)
	vcover("reached")
	vassert("every-shard-request-is-addressed-to-the-shards-rendezvous-owner", r.misrouted == 0)
	if anyInfoFail {
		vassert("unavailable-shard-refuses-the-insert-without-side-effects", err != nil && r.sideEffect == 0)
		return
	}
	if total+int64(np) > quota {
		vassert("over-quota-insert-is-refused-without-side-effects", errors.Is(err, ErrQuotaReached) && r.sideEffect == 0)
		return
	}
	vassert("within-quota-insert-is-accepted", err == nil)
	if err != nil {
		return
	}
	// bookkeeping: failed ranges are the ranges of the failing shard; accepted points add up
	accepted := 0
	for _, n := range r.inserted {
		accepted += n
	}
	failedPts := 0
	for _, fr := range failed {
		vassert("failed-range-belongs-to-a-failing-shard", r.insertFail[fr.ShardId])
		vassert("failed-range-well-formed", fr.Start >= 0 && fr.End > fr.Start && fr.End <= np)
		failedPts += fr.End - fr.Start
	}
	vassert("every-point-is-accepted-or-reported-failed", accepted+failedPts == np)
	for id, n := range r.inserted {
		vassert("no-shard-exceeds-the-per-shard-point-limit", r.counts[id]+int64(n) <= c.cfg.MaxShardPointCount)
	}
}

// C13: every operation on a user's collection records - create, list, get, delete - is addressed
// to the rendezvous owner of the user id (whatever the collection is called), from any node.
func VerifCollectionRecordRouting() {
	servers := []string{"self", "other", "third"}[:vparam("SERVERS", 2)]
	c := &ClusterNode{Servers: servers, MyHostname: "self"}
	r := &verifRemote{counts: map[string]int64{}, infoFails: map[string]bool{}, insertFail: map[string]bool{}, inserted: map[string]int{}, servers: servers}
	verifRemoteScript = r
	verifNodes = map[string]*ClusterNode{}
	defer func() { verifRemoteScript, verifNodes = nil, nil }()
	user := remoteName("carol", servers)
	// the collection name plays no part in routing: names that themselves hash to this node or to the other one
	colId := "orders"
	if nondetBool() {
		colId = ownedName("orders", servers, "self")
	} else {
		colId = ownedName("orders", servers, "other")
	}
	col := models.Collection{UserId: user, Id: colId}
	switch nondetIntRange(0, 3) {
	case 0:
		vassert("create-ok", c.CreateCollection(col) == nil)
	case 1:
		_, err := c.ListCollections(user)
		vassert("list-ok", err == nil)
	case 2:
		got, err := c.GetCollection(user, colId)
		vassert("get-ok", err == nil && got.UserId == user && got.Id == colId)
	case 3:
		_, err := c.DeleteCollection(col)
		vassert("delete-ok", err == nil)
	}
	vcover("reached")
	vassert("record-operation-reaches-the-remote-owner", r.recordCalls == 1)
	vassert("every-record-operation-is-addressed-to-the-owner-of-the-user-id", r.misrouted == 0)
}
