package cluster

import (
	"errors"
	"os"
	"path/filepath"

	"github.com/semafind/semadb/diskstore"
)

// ---- C14(1): start-up synchronisation of collection records between node objects living in
// one state. The transport (internalRoute) is replaced: a call is delivered to the destination
// node object's own handler, or fails before delivery, or is delivered but reported as failed
// to the caller (timeout / sender killed after the destination committed).

var verifNodes map[string]*ClusterNode
var verifRouteFault func(remoteFn, dest string) int // 0 deliver, 1 fail before delivery, 2 deliver but report failure

var errVerifTransport = errors.New("transport failure")

func (c *ClusterNode) internalRoute(remoteFn string, args Destinationer, reply any) error {
	if verifNodes == nil {
		return c.verifOrigInternalRoute(remoteFn, args, reply)
	}
	if verifRemoteScript != nil {
		return verifRemoteScript.handle(remoteFn, args, reply)
	}
	dest := verifNodes[args.Destination()]
	if dest == nil {
		return errVerifTransport
	}
	mode := 0
	if verifRouteFault != nil {
		mode = verifRouteFault(remoteFn, args.Destination())
	}
	if mode == 1 {
		return errVerifTransport
	}
	var err error
	switch remoteFn {
	case "ClusterNode.RPCSetNodeKeyValue":
		err = dest.RPCSetNodeKeyValue(args.(*RPCSetNodeKeyValueRequest), reply.(*RPCSetNodeKeyValueResponse))
	case "ClusterNode.RPCSendShard":
		err = dest.RPCSendShard(args.(*RPCSendShardRequest), reply.(*RPCSendShardResponse))
	default:
		return errors.New("verif transport: unsupported remote function " + remoteFn)
	}
	if mode == 2 {
		return errVerifTransport
	}
	return err
}

func syncNode(name string, servers []string) *ClusterNode {
	db, err := diskstore.Open("")
	vassume(err == nil)
	return &ClusterNode{Servers: servers, MyHostname: name, nodedb: db}
}

func nodeRecords(c *ClusterNode) map[string][]byte {
	out := map[string][]byte{}
	c.nodedb.Read(func(bm diskstore.BucketManager) error {
		b, err := bm.Get(USERCOLSBUCKETKEY)
		if err != nil {
			return err
		}
		return b.ForEach(func(k, v []byte) error { out[string(k)] = v; return nil })
	})
	return out
}

func VerifSyncUserCollections() {
	// natively the hash is real: the same choices are replayed for many user-name pairs so that
	// every owner pattern the solver may have chosen occurs
	faultMode := nondetIntRange(0, 2)
	swap := nondetBool()
	n := nondetIntRange(1, vparam("RECORDS", 2))
	onB := []bool{nondetBool(), nondetBool()}
	if vsymbolic() {
		syncScenario([]string{"u", "u0"}, faultMode, swap, n, onB)
		return
	}
	for i := 0; i < 64; i++ {
		base := "user" + string(rune('a'+i%26)) + string(rune('0'+i/26))
		syncScenario([]string{base, base + "0"}, faultMode, swap, n, onB)
	}
}

func syncScenario(users []string, faultMode int, swap bool, n int, onB []bool) {
	servers := []string{"A", "B"}
	a, b := syncNode("A", servers), syncNode("B", servers)
	// server lists may be ordered differently on the two nodes (routing must not care)
	if swap {
		b.Servers = []string{"B", "A"}
	}
	verifNodes = map[string]*ClusterNode{"A": a, "B": b}
	defer func() { verifNodes, verifRouteFault = nil, nil }()
	// records: up to N users, each record initially on A or B (wherever it was before the server list changed)
	vals := map[string][]byte{}
	for i := 0; i < n; i++ {
		key := users[i] + DBDELIMITER + "col"
		val := []byte{byte(10 + i)}
		vals[key] = val
		holder := a
		if onB[i] {
			holder = b
		}
		holder.nodedb.Write(func(bm diskstore.BucketManager) error {
			bk, err := bm.Get(USERCOLSBUCKETKEY)
			vassume(err == nil)
			return bk.Put([]byte(key), val)
		})
	}
	// first synchronisation of node A with a transport fault, then (after "restart") a fault-free round on both
	faultUsed := false
	verifRouteFault = func(fn, dest string) int {
		if !faultUsed {
			faultUsed = true
			return faultMode
		}
		return 0
	}
	err1 := a.syncUserCollections()
	vcover("reached")
	// nothing may be lost, whatever happened
	ra, rb := nodeRecords(a), nodeRecords(b)
	for key, val := range vals {
		va, inA := ra[key]
		vb, inB := rb[key]
		vassert("record-is-never-lost", inA || inB)
		if inA {
			vassert("record-bytes-unchanged-at-a", len(va) == 1 && va[0] == val[0])
		}
		if inB {
			vassert("record-bytes-unchanged-at-b", len(vb) == 1 && vb[0] == val[0])
		}
	}
	if faultMode == 0 {
		vassert("fault-free-sync-succeeds", err1 == nil)
	}
	// later synchronisations (fault free) complete the move
	verifRouteFault = nil
	vassert("later-sync-of-a-succeeds", a.syncUserCollections() == nil)
	vassert("later-sync-of-b-succeeds", b.syncUserCollections() == nil)
	ra, rb = nodeRecords(a), nodeRecords(b)
	for i := 0; i < n; i++ {
		key := users[i] + DBDELIMITER + "col"
		owner := RendezvousHash(users[i], servers, 1)[0]
		_, inA := ra[key]
		_, inB := rb[key]
		vassert("record-resides-exactly-on-its-owner", inA == (owner == "A") && inB == (owner == "B"))
	}
}

// ---- C14(2): shard-file transfer. sendShardFile + RPCSendShard between two node objects over
// the executor's file model (natively: real files in a scratch directory); the chunk size is
// reduced to 2 bytes (renames.json) so that files of 0..5 bytes span 0..3 chunks.

// FileHash is taken out of the way (renames.json): symbolically the checksum is an injective
// function of the file content; natively the original runs.
func FileHash(path string) (uint64, error) {
	if !vsymbolic() {
		return verifOrigFileHash(path)
	}
	data, ok := vreadfile(path)
	if !ok {
		return 0, errors.New("file does not exist")
	}
	return vcontenthash(data), nil
}

func vwritefile(path string, data []byte) {
	if err := os.MkdirAll(filepath.Dir(path), 0755); err != nil {
		panic(err)
	}
	if err := os.WriteFile(path, data, 0644); err != nil {
		panic(err)
	}
}
func vreadfile(path string) ([]byte, bool) {
	b, err := os.ReadFile(path)
	return b, err == nil
}
func vcontenthash(data []byte) uint64 { return 0 }

func sameBytes(a, b []byte) bool {
	if len(a) != len(b) {
		return false
	}
	for i := range a {
		if a[i] != b[i] {
			return false
		}
	}
	return true
}

func VerifShardFileTransfer() {
	rootA, rootB := "/a", "/b"
	if !vsymbolic() {
		d, err := os.MkdirTemp("", "verifsync")
		if err != nil {
			panic(err)
		}
		defer os.RemoveAll(d)
		rootA, rootB = d+"/a", d+"/b"
	}
	servers := []string{"A", "B"}
	a, b := syncNode("A", servers), syncNode("B", servers)
	a.cfg.ShardManager.RootDir, b.cfg.ShardManager.RootDir = rootA, rootB
	verifNodes = map[string]*ClusterNode{"A": a, "B": b}
	defer func() { verifNodes, verifRouteFault = nil, nil }()
	size := nondetIntRange(1, vparam("SIZE", 5)) // a bbolt file is never empty (a zero-length file would never get a checksum: not a reachable input)
	content := nondetBytes(size)
	rel := "/" + USERCOLSDIR + "/u/c/shard1/sharddb.bbolt"
	vwritefile(rootA+rel, content)
	// another shard of the same collection stays on this node
	rel2 := "/" + USERCOLSDIR + "/u/c/shard2/sharddb.bbolt"
	other := []byte{7, 7, 7}
	vwritefile(rootA+rel2, other)
	// first attempt: the k-th chunk RPC fails before or after delivery (or no fault)
	faultAt := nondetIntRange(-1, vparam("CHUNKS", 4))
	faultMode := nondetIntRange(1, 2)
	calls := 0
	verifRouteFault = func(fn, dest string) int {
		k := calls
		calls++
		if k == faultAt {
			return faultMode
		}
		return 0
	}
	err1 := a.sendShardFile("B", rootA+rel)
	vcover("reached")
	faulted := faultAt >= 0 && calls > faultAt
	srcData, srcOk := vreadfile(rootA + rel)
	dstData, dstOk := vreadfile(rootB + rel)
	if !faulted {
		vassert("fault-free-transfer-succeeds", err1 == nil)
	}
	// a source copy is removed only after the destination holds a complete identical copy
	if !srcOk {
		vassert("source-removed-only-after-a-complete-verified-copy", dstOk && sameBytes(dstData, content))
	} else {
		vassert("source-unchanged-while-it-exists", sameBytes(srcData, content))
	}
	if err1 == nil {
		vassert("successful-transfer-moves-the-file", !srcOk && dstOk && sameBytes(dstData, content))
	}
	if keep, ok := vreadfile(rootA + rel2); true {
		vassert("other-shards-of-the-collection-are-untouched", ok && sameBytes(keep, other))
	}
	// a later synchronisation (fault free) completes the move
	verifRouteFault = nil
	if srcOk {
		err2 := a.sendShardFile("B", rootA+rel)
		vassert("later-transfer-completes-the-move", err2 == nil)
		_, srcOk2 := vreadfile(rootA + rel)
		dst2, dstOk2 := vreadfile(rootB + rel)
		vassert("after-the-retry-the-file-is-only-at-the-destination-and-identical", !srcOk2 && dstOk2 && sameBytes(dst2, content))
	}
}

// ---- C14(3): the whole shard phase of the start-up synchronisation: syncShards walks the shard
// directory of this node, decides the owner of every shard by rendezvous hashing (symbolic: every
// assignment of the shards to the two servers) and moves the shards it does not own. Afterwards
// every shard file is exactly on its owner, byte-identical; with one transport fault nothing is
// lost and a second fault-free run completes the move.
func VerifSyncShardsWalk() {
	rootA, rootB := "/a", "/b"
	if !vsymbolic() {
		d, err := os.MkdirTemp("", "verifsyncwalk")
		if err != nil {
			panic(err)
		}
		defer os.RemoveAll(d)
		rootA, rootB = d+"/a", d+"/b"
	}
	servers := []string{"A", "B"}
	a, b := syncNode("A", servers), syncNode("B", servers)
	a.cfg.ShardManager.RootDir, b.cfg.ShardManager.RootDir = rootA, rootB
	verifNodes = map[string]*ClusterNode{"A": a, "B": b}
	defer func() { verifNodes, verifRouteFault = nil, nil }()
	nshards := vparam("SHARDS", 2)
	names := []string{"shard1", "shard2", "shard3"}[:nshards]
	cols := []string{"/u/c/", "/u/d/", "/v/c/"}
	contents := make([][]byte, nshards)
	owners := make([]string, nshards)
	for i, n := range names {
		contents[i] = nondetBytes(nondetIntRange(1, vparam("SIZE", 3)))
		vwritefile(rootA+"/"+USERCOLSDIR+cols[i]+n+"/sharddb.bbolt", contents[i])
		owners[i] = RendezvousHash(n, servers, 1)[0] // symbolic hash: both owners are explored
	}
	faultAt := nondetIntRange(-1, vparam("CHUNKS", 2))
	calls := 0
	verifRouteFault = func(fn, dest string) int {
		k := calls
		calls++
		if k == faultAt {
			return nondetIntRange(1, 2)
		}
		return 0
	}
	err := a.syncShards()
	vcover("reached")
	faulted := faultAt >= 0 && calls > faultAt
	if !faulted {
		vassert("fault-free-shard-sync-succeeds", err == nil)
	}
	check := func(final bool) {
		for i, n := range names {
			rel := "/" + USERCOLSDIR + cols[i] + n + "/sharddb.bbolt"
			src, srcOk := vreadfile(rootA + rel)
			dst, dstOk := vreadfile(rootB + rel)
			vassert("a-shard-is-never-lost", (srcOk && sameBytes(src, contents[i])) || (dstOk && sameBytes(dst, contents[i])))
			if owners[i] == "A" {
				vassert("own-shards-stay-where-they-are", srcOk && sameBytes(src, contents[i]) && !dstOk)
			} else if final {
				vassert("foreign-shard-is-exactly-on-its-owner", !srcOk && dstOk && sameBytes(dst, contents[i]))
			}
		}
	}
	check(!faulted && err == nil)
	if faulted || err != nil {
		verifRouteFault = nil
		err2 := a.syncShards()
		vassert("later-shard-sync-succeeds", err2 == nil)
		check(true)
	}
}

// ---- C14(4): the entry point Sync(). A node whose list holds only itself has nothing to do; a node
// that was removed (the list holds only the other server) hands over every record and every shard.
func VerifSyncEntryPoint() {
	rootA, rootB := "/a", "/b"
	if !vsymbolic() {
		d, err := os.MkdirTemp("", "verifsyncentry")
		if err != nil {
			panic(err)
		}
		defer os.RemoveAll(d)
		rootA, rootB = d+"/a", d+"/b"
	}
	shrunk := nondetBool()
	servers := []string{"A"} // alone
	if shrunk {
		servers = []string{"B"} // A has been removed and drains
	}
	a, b := syncNode("A", servers), syncNode("B", []string{"B"})
	a.cfg.ShardManager.RootDir, b.cfg.ShardManager.RootDir = rootA, rootB
	verifNodes = map[string]*ClusterNode{"A": a, "B": b}
	defer func() { verifNodes, verifRouteFault = nil, nil }()
	key, val := "u"+DBDELIMITER+"col", []byte{42}
	a.nodedb.Write(func(bm diskstore.BucketManager) error {
		bk, err := bm.Get(USERCOLSBUCKETKEY)
		vassume(err == nil)
		return bk.Put([]byte(key), val)
	})
	rel := "/" + USERCOLSDIR + "/u/col/shard1/sharddb.bbolt"
	content := nondetBytes(nondetIntRange(1, 3))
	vwritefile(rootA+rel, content)
	err := a.Sync()
	vcover("reached")
	vassert("sync-succeeds", err == nil)
	recA, recB := nodeRecords(a), nodeRecords(b)
	src, srcOk := vreadfile(rootA + rel)
	dst, dstOk := vreadfile(rootB + rel)
	if shrunk {
		_, onA := recA[key]
		vassert("removed-node-hands-over-its-records", !onA && len(recB[key]) == 1 && recB[key][0] == 42)
		vassert("removed-node-hands-over-its-shards", !srcOk && dstOk && sameBytes(dst, content))
	} else {
		vassert("single-node-keeps-its-records", len(recA[key]) == 1 && len(recB) == 0)
		vassert("single-node-keeps-its-shards", srcOk && sameBytes(src, content) && !dstOk)
	}
}
