package cluster

import (
	"sync"

	"github.com/semafind/semadb/diskstore"
	"github.com/semafind/semadb/models"
)

// ---- C16: the node-database namespace. Keys are '<user>/<collection>'; user A's operations
// never show in, change, or count against user B's records, for all delimiter-free user ids
// (prefixes of one another, 'user+collection' concatenations colliding as strings).

func drawUserId(maxLen int) string {
	s := nondetString(nondetIntRange(1, maxLen))
	for i := 0; i < len(s); i++ {
		vassume(s[i] != '/')
	}
	return s
}

var verifColNames = []string{"c", "cc", "c1"}

func tenantNode() *ClusterNode {
	db, err := diskstore.Open("") // the repo's in-memory store
	vassume(err == nil)
	return &ClusterNode{Servers: []string{"self"}, MyHostname: "self", nodedb: db}
}

func (c *ClusterNode) verifCreate(user, col string, maxCols int) (exists, quota bool, err error) {
	req := RPCCreateCollectionRequest{RPCRequestArgs: RPCRequestArgs{Source: "self", Dest: "self"},
		Collection: models.Collection{UserId: user, Id: col, UserPlan: models.UserPlan{MaxCollections: maxCols}}}
	resp := RPCCreateCollectionResponse{}
	err = c.RPCCreateCollection(&req, &resp)
	return resp.AlreadyExists, resp.QuotaReached, err
}

func (c *ClusterNode) verifList(user string) []string {
	req := RPCListCollectionsRequest{RPCRequestArgs: RPCRequestArgs{Source: "self", Dest: "self"}, UserId: user}
	resp := RPCListCollectionsResponse{}
	vassert("list-ok", c.RPCListCollections(&req, &resp) == nil)
	out := []string{}
	for _, col := range resp.Collections {
		vassert("listed-collection-belongs-to-the-listing-user", col.UserId == user)
		out = append(out, col.Id)
	}
	return out
}

func (c *ClusterNode) verifGet(user, col string) (found bool, owner string) {
	req := RPCGetCollectionRequest{RPCRequestArgs: RPCRequestArgs{Source: "self", Dest: "self"}, UserId: user, CollectionId: col}
	resp := RPCGetCollectionResponse{}
	vassert("get-ok", c.RPCGetCollection(&req, &resp) == nil)
	return !resp.NotFound, resp.Collection.UserId
}

func (c *ClusterNode) verifDelete(user, col string) {
	req := RPCDeleteCollectionRequest{RPCRequestArgs: RPCRequestArgs{Source: "self", Dest: "self"}, Collection: models.Collection{UserId: user, Id: col}}
	resp := RPCDeleteCollectionResponse{}
	vassert("delete-ok", c.RPCDeleteCollection(&req, &resp) == nil)
}

func sameStrings(a, b []string) bool {
	if len(a) != len(b) {
		return false
	}
	for _, x := range a {
		n, m := 0, 0
		for _, y := range a {
			if y == x {
				n++
			}
		}
		for _, y := range b {
			if y == x {
				m++
			}
		}
		if n != m {
			return false
		}
	}
	return true
}

func VerifTenantIsolation() {
	c := tenantNode()
	a, b := drawUserId(vparam("ID", 2)), drawUserId(vparam("ID", 2))
	vassume(a != b)
	// B owns some collections
	bHas := [3]bool{}
	for i, name := range verifColNames {
		if nondetBool() {
			ex, q, err := c.verifCreate(b, name, 10)
			vassume(err == nil && !ex && !q)
			bHas[i] = true
		}
	}
	beforeList := c.verifList(b)
	// A acts: a symbolic sequence of operations under A's id
	nops := nondetIntRange(1, vparam("OPS", 2))
	aHas := [3]bool{}
	for k := 0; k < nops; k++ {
		i := nondetIntRange(0, len(verifColNames)-1)
		kind := nondetIntRange(0, 2)
		if kind == 2 {
			// read and delete with an arbitrary collection id as it can arrive percent-decoded from the URL
			// (only its length is checked there): slashes and dots included
			var crafted string
			switch nondetIntRange(0, 4) {
			case 0:
				crafted = nondetString(nondetIntRange(1, vparam("CRAFT", 2)))
			case 1:
				crafted = "../" + b + "/" + verifColNames[i]
			case 2:
				crafted = "./" + verifColNames[i]
			case 3:
				crafted = verifColNames[i] + "/../" + verifColNames[i]
			case 4:
				crafted = "/" + b + "/" + verifColNames[i]
			}
			isOwn := false
			for j, name := range verifColNames {
				if crafted == name && aHas[j] {
					isOwn = true
				}
			}
			found, owner := c.verifGet(a, crafted)
			vassert("a-reads-only-own-collections", found == isOwn && (!found || owner == a))
			c.verifDelete(a, crafted)
			for j, name := range verifColNames {
				if crafted == name {
					aHas[j] = false
				}
			}
			continue
		}
		if kind == 0 {
			ex, q, err := c.verifCreate(a, verifColNames[i], 10)
			vassert("a-create-ok", err == nil && !q)
			vassert("a-create-sees-only-own-collections", ex == aHas[i])
			aHas[i] = true
		} else {
			c.verifDelete(a, verifColNames[i])
			aHas[i] = false
		}
	}
	vcover("reached")
	// B's view is unchanged
	afterList := c.verifList(b)
	vassert("b-list-unchanged", sameStrings(beforeList, afterList))
	nB := 0
	for i, name := range verifColNames {
		found, owner := c.verifGet(b, name)
		vassert("b-get-unchanged", found == bHas[i] && (!found || owner == b))
		if bHas[i] {
			nB++
		}
	}
	vassert("b-list-is-exactly-b-collections", len(afterList) == nB)
	// A's activity does not count against B's quota: B can still create up to its own limit
	free := -1
	for i := range verifColNames {
		if !bHas[i] {
			free = i
		}
	}
	if free >= 0 {
		_, q, err := c.verifCreate(b, verifColNames[free], nB+1)
		vassert("a-collections-do-not-count-against-b-quota", err == nil && !q)
		_, q2, err2 := c.verifCreate(b, "zz", nB+1)
		vassert("b-quota-is-enforced-on-b-count", err2 == nil && q2)
	}
	// and A's own view is what A did
	aList := c.verifList(a)
	nA := 0
	for i := range verifColNames {
		if aHas[i] {
			nA++
		}
	}
	vassert("a-list-is-exactly-a-collections", len(aList) == nA)
}

// C15(3): the per-user collection quota holds under concurrent creations: two requests of one
// user at the quota boundary (limit 1, or limit 2 with one collection present) - at most
// `limit` collections exist afterwards and exactly the surplus request is refused.
func VerifConcurrentCollectionQuota() {
	c := tenantNode()
	limit := nondetIntRange(1, 2)
	if limit == 2 {
		ex, q, err := c.verifCreate("u", "c0", limit)
		vassume(err == nil && !ex && !q)
	}
	var wg sync.WaitGroup
	refused := make([]bool, 2)
	names := []string{"c1", "c2"}
	for i := 0; i < 2; i++ {
		wg.Add(1)
		go func(i int) {
			defer wg.Done()
			_, q, err := c.verifCreate("u", names[i], limit)
			vassert("create-returns", err == nil)
			refused[i] = q
		}(i)
	}
	wg.Wait()
	vcover("reached")
	vassert("collection-quota-never-exceeded", len(c.verifList("u")) <= limit)
	vassert("exactly-one-request-is-refused", refused[0] != refused[1])
}
