package cluster

import (
	"sync"

	"github.com/google/uuid"
	"github.com/semafind/semadb/models"
)

func nondetUUID() uuid.UUID {
	var u uuid.UUID
	for i := range u {
		u[i] = nondetByte()
	}
	return u
}

// C17(1): the failed list is exactly the requested ids that no shard reported, in
// request order, with "not found" iff every shard answered.
func VerifCurateFailedPoints() {
	nAll := nondetIntRange(0, vparam("A", 3))
	nOk := nondetIntRange(0, vparam("K", 3))
	all := make([]uuid.UUID, nAll)
	for i := range all {
		all[i] = nondetUUID()
	}
	// requested ids are unique (the API requires it)
	for i := range all {
		for j := 0; j < i; j++ {
			vassume(all[i] != all[j])
		}
	}
	// success ids: each is one of the requested ids (shards only report ids they were asked
	// about), each at most once (ids are unique per collection, so one shard holds a point)
	okIdx := make([]int, nOk)
	success := make([]uuid.UUID, nOk)
	for i := range success {
		vassume(nAll > 0)
		okIdx[i] = nondetIntRange(0, nAll-1)
		for j := 0; j < i; j++ {
			vassume(okIdx[i] != okIdx[j])
		}
		success[i] = all[okIdx[i]]
	}
	complete := nondetBool()
	allCopy := append([]uuid.UUID{}, all...)
	failed := curateFailedPoints(all, success, complete)
	vcover("reached")
	// model
	want := []uuid.UUID{}
	for i, id := range allCopy {
		found := false
		for _, k := range okIdx {
			if k == i {
				found = true
			}
		}
		if !found {
			want = append(want, id)
		}
	}
	vassert("failed-count", len(failed) == len(want))
	for i := range failed {
		if i < len(want) {
			vassert("failed-are-the-unprocessed-ids-in-request-order", failed[i].Id == want[i])
			if complete {
				vassert("not-found-when-complete", failed[i].Err == "not found")
			} else {
				vassert("unavailable-when-incomplete", failed[i].Err == ErrShardUnavailable.Error())
			}
		}
	}
	for i := range all {
		vassert("request-list-untouched", all[i] == allCopy[i])
	}
	vobserve("nfailed", uint64(len(failed)))
}

// ---- C17(2,3): coordinator logic of UpdatePoints / DeletePoints / SearchPoints with the
// per-shard RPCs replaced (executor redirection, native: function variable not available,
// so the harness drives the real methods through a node whose shards are scripted).

type verifShardScript struct {
	fails   bool
	holds   []uuid.UUID          // ids this shard would report as processed
	results []models.SearchResult // what this shard would answer to a search (best first)
}

var verifShards map[string]*verifShardScript
var verifSeenLimits []int
var verifSeenOffsets []int
var verifMu sync.Mutex

func verifRPCUpdatePoints(c *ClusterNode, args *RPCUpdatePointsRequest, reply *RPCUpdatePointsResponse) error {
	sc := verifShards[args.ShardId]
	vyield()
	if sc.fails {
		return ErrShardUnavailable
	}
	for _, p := range args.Points {
		for _, h := range sc.holds {
			if h == p.Id {
				reply.UpdatedIds = append(reply.UpdatedIds, p.Id)
			}
		}
	}
	return nil
}

func verifRPCDeletePoints(c *ClusterNode, args *RPCDeletePointsRequest, reply *RPCDeletePointsResponse) error {
	sc := verifShards[args.ShardId]
	vyield()
	if sc.fails {
		return ErrShardUnavailable
	}
	for _, id := range args.Ids {
		for _, h := range sc.holds {
			if h == id {
				reply.DeletedIds = append(reply.DeletedIds, id)
			}
		}
	}
	return nil
}

func verifRPCSearchPoints(c *ClusterNode, args *RPCSearchPointsRequest, reply *RPCSearchPointsResponse) error {
	sc := verifShards[args.ShardId]
	vyield()
	verifMu.Lock()
	verifSeenLimits = append(verifSeenLimits, args.SearchRequest.Limit)
	verifSeenOffsets = append(verifSeenOffsets, args.SearchRequest.Offset)
	verifMu.Unlock()
	if sc.fails {
		return ErrShardUnavailable
	}
	res := sc.results
	off := args.SearchRequest.Offset
	if off > len(res) {
		off = len(res)
	}
	res = res[off:]
	if len(res) > args.SearchRequest.Limit {
		res = res[:args.SearchRequest.Limit]
	}
	reply.Points = append(reply.Points, res...)
	return nil
}

func verifFanoutNode() *ClusterNode {
	return &ClusterNode{Servers: []string{"self"}, MyHostname: "self", cfg: ClusterNodeConfig{MaxSearchLimit: 75}}
}

func verifFanoutSetup(write bool) (col models.Collection, ids []uuid.UUID, holder []int, nShards int) {
	nShards = nondetIntRange(1, vparam("SH", 2))
	nIds := nondetIntRange(1, vparam("IDS", 2))
	names := []string{"sh0", "sh1", "sh2"}
	col = models.Collection{UserId: "u", Id: "c", ShardIds: names[:nShards]}
	verifShards = map[string]*verifShardScript{}
	for _, n := range col.ShardIds {
		verifShards[n] = &verifShardScript{fails: nondetBool()}
	}
	ids = make([]uuid.UUID, nIds)
	holder = make([]int, nIds)
	for i := range ids {
		ids[i] = nondetUUID()
		for j := 0; j < i; j++ {
			vassume(ids[i] != ids[j])
		}
		holder[i] = nondetIntRange(-1, nShards-1) // the one shard that stores the point, -1: none
		if holder[i] >= 0 {
			sc := verifShards[names[holder[i]]]
			sc.holds = append(sc.holds, ids[i])
		}
	}
	return
}

func verifCheckFailed(label string, failed []FailedPoint, ids []uuid.UUID, holder []int, col models.Collection) {
	anyFail := false
	for _, n := range col.ShardIds {
		if verifShards[n].fails {
			anyFail = true
		}
	}
	k := 0
	for i, id := range ids {
		processed := holder[i] >= 0 && !verifShards[col.ShardIds[holder[i]]].fails
		if processed {
			continue
		}
		vassert(label+"-unprocessed-id-is-listed-in-order", k < len(failed) && failed[k].Id == id)
		if k < len(failed) {
			if anyFail {
				vassert(label+"-says-unavailable-when-a-shard-did-not-answer", failed[k].Err == ErrShardUnavailable.Error())
			} else {
				vassert(label+"-says-not-found-when-all-answered", failed[k].Err == "not found")
			}
		}
		k++
	}
	vassert(label+"-no-processed-id-listed", len(failed) == k)
}

func VerifUpdateFanout() {
	col, ids, holder, _ := verifFanoutSetup(true)
	points := make([]models.Point, len(ids))
	for i := range points {
		points[i].Id = ids[i]
	}
	c := verifFanoutNode()
	failed, err := c.UpdatePoints(col, points)
	vcover("reached")
	vassert("update-no-error", err == nil)
	verifCheckFailed("update", failed, ids, holder, col)
}

func VerifDeleteFanout() {
	col, ids, holder, _ := verifFanoutSetup(true)
	c := verifFanoutNode()
	failed, err := c.DeletePoints(col, append([]uuid.UUID{}, ids...))
	vcover("reached")
	vassert("delete-no-error", err == nil)
	verifCheckFailed("delete", failed, ids, holder, col)
}

func VerifSearchFanout() {
	nShards := nondetIntRange(1, vparam("SH", 2))
	names := []string{"sh0", "sh1", "sh2"}
	col := models.Collection{UserId: "u", Id: "c", ShardIds: names[:nShards]}
	verifShards = map[string]*verifShardScript{}
	verifSeenLimits, verifSeenOffsets = nil, nil
	total := 0
	var allScores []float32
	nextId := uint64(10)
	for _, n := range col.ShardIds {
		sc := &verifShardScript{fails: nondetBool()}
		k := nondetIntRange(0, vparam("R", 2))
		for i := 0; i < k; i++ {
			s := nondetFloat32()
			vassume(s == s)
			if i > 0 {
				vassume(s <= sc.results[i-1].HybridScore) // a shard answers best first
			}
			var r models.SearchResult
			r.NodeId = nextId
			r.Id[0] = byte(nextId)
			nextId++
			r.HybridScore = s
			sc.results = append(sc.results, r)
			allScores = append(allScores, s)
		}
		total += k
		verifShards[n] = sc
	}
	limit := nondetIntRange(1, vparam("L", 3))
	sr := models.SearchRequest{Limit: limit, Offset: 0}
	c := verifFanoutNode()
	res, err := c.SearchPoints(col, sr)
	vcover("reached")
	anyFail := false
	for _, n := range col.ShardIds {
		if verifShards[n].fails {
			anyFail = true
		}
	}
	if anyFail {
		vassert("search-reports-unavailable-shard", err != nil && res == nil)
		return
	}
	vassert("search-no-error", err == nil)
	vassert("at-most-limit", len(res) <= limit)
	for _, l := range verifSeenLimits {
		vassert("per-shard-limit-positive-and-bounded", l >= 1 && l <= limit)
	}
	for i := range res {
		// from a shard answer
		from := false
		for _, n := range col.ShardIds {
			for _, r := range verifShards[n].results {
				if r.NodeId == res[i].NodeId && r.Id == res[i].Id && r.HybridScore == res[i].HybridScore {
					from = true
				}
			}
		}
		vassert("result-taken-from-a-shard-answer", from)
		for j := 0; j < i; j++ {
			vassert("no-duplicates", res[j].Id != res[i].Id)
		}
		if i > 0 {
			vassert("globally-ordered-by-hybrid-score", res[i-1].HybridScore >= res[i].HybridScore)
		}
	}
	// limit small enough that no shard was cut: the global top-`limit` is returned
	want := total
	if want > limit {
		want = limit
	}
	vassert("returns-min-limit-total", len(res) == want)
	for _, s := range allScores {
		inRes := false
		for i := range res {
			if res[i].HybridScore == s {
				inRes = true
			}
		}
		if !inRes && len(res) > 0 {
			vassert("omitted-result-is-not-better-than-the-last-kept", s <= res[len(res)-1].HybridScore)
		}
	}
}

// The per-shard point RPCs are taken out of the way by renames.json (the originals are kept as
// verifOrig…); when a script is installed the stub answers, otherwise the original runs.
func (c *ClusterNode) RPCUpdatePoints(args *RPCUpdatePointsRequest, reply *RPCUpdatePointsResponse) error {
	if verifShards != nil {
		return verifRPCUpdatePoints(c, args, reply)
	}
	return c.verifOrigRPCUpdatePoints(args, reply)
}
func (c *ClusterNode) RPCDeletePoints(args *RPCDeletePointsRequest, reply *RPCDeletePointsResponse) error {
	if verifShards != nil {
		return verifRPCDeletePoints(c, args, reply)
	}
	return c.verifOrigRPCDeletePoints(args, reply)
}
func (c *ClusterNode) RPCSearchPoints(args *RPCSearchPointsRequest, reply *RPCSearchPointsResponse) error {
	if verifShards != nil {
		return verifRPCSearchPoints(c, args, reply)
	}
	return c.verifOrigRPCSearchPoints(args, reply)
}
