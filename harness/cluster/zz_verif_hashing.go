package cluster

import (
	"strconv"

	"github.com/cespare/xxhash"
)

// C13. RendezvousHash must return the topK servers in ascending order of
// hash(key+server), whatever the order of the server list. Order independence,
// determinism and minimal disruption are consequences, and are also asserted directly.
//
// Symbolically the hash is an uninterpreted function (distinct inputs, distinct
// scores); by symmetry the servers are named in ascending score order. Natively
// (replay) the same permutation choices are applied for many concrete keys, with the
// names sorted by their real xxhash score first, so a solver counterexample is
// confirmed by finding concrete keys with the same score pattern.

var verifServerPool = []string{"alpha:1", "b", "node-c.internal:9898", "d4", "e", "ffffff", "g7"}

func verifKeys() []string {
	if vsymbolic() {
		if vparam("LONG", 0) == 1 {
			return []string{"0123456789abcdef0123456789abcdef0123456789abcdef0123456789abcdef-a-long-user-id"}
		}
		return []string{"k"}
	}
	keys := make([]string, 0, 3000)
	for i := 0; i < 3000; i++ {
		keys = append(keys, "user-"+strconv.Itoa(i))
	}
	return keys
}

// rankedServers returns n server names ordered by ascending score for key (nil on a tie).
// long names: a common prefix longer than any fixed buffer one might be tempted to hash through
var verifLongPrefix = "shard-server-with-a-very-long-fully-qualified-domain-name.eu-central-1.compute.internal.example.org:"

func rankedServers(key string, n int) []string {
	names := append([]string{}, verifServerPool[:n]...)
	if vparam("LONG", 0) == 1 {
		for i := range names {
			names[i] = verifLongPrefix + names[i]
		}
	}
	if vsymbolic() {
		for i := 0; i+1 < n; i++ {
			vassume(xxhash.Sum64String(key+names[i]) < xxhash.Sum64String(key+names[i+1]))
		}
		return names
	}
	for i := 1; i < n; i++ {
		for j := i; j > 0; j-- {
			a, b := xxhash.Sum64String(key+names[j-1]), xxhash.Sum64String(key+names[j])
			if a == b {
				return nil
			}
			if a > b {
				names[j-1], names[j] = names[j], names[j-1]
			}
		}
	}
	return names
}

func drawPermutation(n int) []int {
	rest := make([]int, n)
	for i := range rest {
		rest[i] = i
	}
	out := make([]int, 0, n)
	for len(rest) > 0 {
		k := 0
		if len(rest) > 1 {
			k = nondetIntRange(0, len(rest)-1)
		}
		out = append(out, rest[k])
		rest = append(rest[:k], rest[k+1:]...)
	}
	return out
}

func applyPerm(names []string, p []int) []string {
	out := make([]string, len(p))
	for i, k := range p {
		out[i] = names[k]
	}
	return out
}

func VerifRendezvousSpec() {
	n := nondetIntRange(1, vparam("N", 4))
	perm := drawPermutation(n)
	topK := nondetIntRange(0, n+1)
	for _, key := range verifKeys() {
		ranked := rankedServers(key, n)
		if ranked == nil {
			continue
		}
		list := applyPerm(ranked, perm)
		res := RendezvousHash(key, list, topK)
		vcover("reached")
		want := topK
		if want > n {
			want = n
		}
		vassert("length-is-min-topk-n", len(res) == want)
		for i := range res {
			vassert("result-is-ascending-score-prefix", res[i] == ranked[i])
		}
		// the caller's list must not be reordered or altered
		for i := range list {
			vassert("input-list-untouched", list[i] == ranked[perm[i]])
		}
	}
}

// Two differently ordered lists of the same servers give the same answer (stated
// directly, not via the specification).
func VerifRendezvousOrderIndependent() {
	n := nondetIntRange(1, vparam("N", 3))
	p1, p2 := drawPermutation(n), drawPermutation(n)
	topK := nondetIntRange(1, n)
	for _, key := range verifKeys() {
		ranked := rankedServers(key, n)
		if ranked == nil {
			continue
		}
		r1 := RendezvousHash(key, applyPerm(ranked, p1), topK)
		r2 := RendezvousHash(key, applyPerm(ranked, p2), topK)
		vcover("reached")
		vassert("same-length", len(r1) == len(r2) && len(r1) == topK)
		for i := range r1 {
			vassert("order-independent", r1[i] == r2[i])
		}
	}
}

// Adding or removing one server only moves keys to the new server / away from the removed one.
func VerifRendezvousMinimalDisruption() {
	n := nondetIntRange(2, vparam("N", 4))
	p1 := drawPermutation(n)
	ri := nondetIntRange(0, n-1) // position (in the permuted list) of the server that is removed / was added
	p2 := drawPermutation(n - 1)
	for _, key := range verifKeys() {
		ranked := rankedServers(key, n)
		if ranked == nil {
			continue
		}
		full := applyPerm(ranked, p1)
		removed := full[ri]
		without := append(append([]string{}, full[:ri]...), full[ri+1:]...)
		without = applyPerm(without, p2)
		oFull := RendezvousHash(key, full, 1)
		oWithout := RendezvousHash(key, without, 1)
		vcover("reached")
		vassert("one-owner", len(oFull) == 1 && len(oWithout) == 1)
		// removal: the owner changes only if the removed server was the owner
		vassert("removal-moves-only-keys-of-removed-server", oFull[0] == oWithout[0] || oFull[0] == removed)
		// addition (read right to left): the owner changes only to the added server
		vassert("addition-moves-keys-only-to-new-server", oFull[0] == oWithout[0] || oFull[0] == removed)
		vassert("removed-server-never-owns", oWithout[0] != removed)
	}
}
