package cluster

import (
	"io/fs"
	"os"
	"sync"

	"github.com/semafind/semadb/models"
	"github.com/semafind/semadb/shard"
)

// ---- C12: shard manager life-cycle. Real loadShard / DoWithShard / cleanupRoutine /
// DeleteCollectionShards; the shard handle, the file system and the idle timer are environment
// models in the executor (natively: real shards in a scratch directory, real timers).

// directory entry handed out by the executor's os.ReadDir model
type verifDirEntry struct{ name string }

func (e verifDirEntry) Name() string               { return e.name }
func (e verifDirEntry) IsDir() bool                { return true }
func (e verifDirEntry) Type() fs.FileMode          { return fs.ModeDir }
func (e verifDirEntry) Info() (fs.FileInfo, error) { return nil, nil }

// natively: the handle is open iff the shard still answers; symbolically intercepted by the executor
func vhandleopen(s *shard.Shard) bool {
	if s == nil {
		return false
	}
	_, err := s.Info()
	return err == nil
}
func vhandleuse(s *shard.Shard, delta int) {}
func vdirexists(path string) bool {
	_, err := os.Stat(path)
	return err == nil
}

func verifRootDir() string {
	if vsymbolic() {
		return "/data"
	}
	d, err := os.MkdirTemp("", "verifshardmgr")
	if err != nil {
		panic(err)
	}
	return d
}

func VerifShardManagerLifecycle() {
	root := verifRootDir()
	sm := NewShardManager(ShardManagerConfig{RootDir: root, ShardTimeout: 1, MaxCacheSize: -1})
	col := models.Collection{UserId: "u", Id: "c"}
	if nondetBool() {
		col.UserPlan.ShardBackupFrequency, col.UserPlan.ShardBackupCount = 60, 1
	}
	nreq := vparam("REQUESTS", 1)
	withDelete := vparam("DELETE", 1) == 1
	var wg sync.WaitGroup
	var mu sync.Mutex
	inside := 0
	request := func() {
		defer wg.Done()
		err := sm.DoWithShard(col, "s1", func(s *shard.Shard) error {
			vassert("request-runs-on-an-open-shard", vhandleopen(s))
			vhandleuse(s, 1)
			mu.Lock()
			inside++
			mu.Unlock()
			vyield()
			vassert("shard-still-open-while-the-request-runs", vhandleopen(s))
			vassert("files-not-removed-while-the-request-runs", vdirexists(root+"/userCollections/u/c/s1"))
			mu.Lock()
			inside--
			mu.Unlock()
			vhandleuse(s, -1)
			return nil
		})
		_ = err // a clean error ("already closed") is acceptable
	}
	for i := 0; i < nreq; i++ {
		wg.Add(1)
		go request()
	}
	if withDelete {
		wg.Add(1)
		go func() {
			defer wg.Done()
			_, err := sm.DeleteCollectionShards(col)
			vassert("delete-returns-without-error", err == nil)
		}()
	}
	wg.Wait() // every shard-manager call returns
	vcover("reached")
	// afterwards a new request can load the shard again and runs on an open shard
	ran := false
	err := sm.DoWithShard(col, "s1", func(s *shard.Shard) error {
		ran = true
		vassert("later-request-runs-on-an-open-shard", vhandleopen(s))
		return nil
	})
	vassert("later-request-is-served-or-cleanly-refused", err != nil || ran)
	if !vsymbolic() {
		sm.DeleteCollectionShards(col)
		os.RemoveAll(root)
	}
}

// ---- C12 at the RPC handlers: the real RPCInsertPoints / RPCGetShardInfo / point handlers run
// on the shard manager concurrently with the idle timer and a collection deletion.
func VerifShardRPCHandlers() {
	root := verifRootDir()
	sm := NewShardManager(ShardManagerConfig{RootDir: root, ShardTimeout: 1, MaxCacheSize: -1})
	c := &ClusterNode{Servers: []string{"self"}, MyHostname: "self", shardManager: sm, metrics: newClusterNodeMetrics()}
	col := models.Collection{UserId: "u", Id: "c"}
	args := RPCRequestArgs{Source: "self", Dest: "self"}
	withDelete := vparam("DELETE", 1) == 1
	handler := nondetIntRange(0, 4)
	if h := vparam("HANDLER", -1); h >= 0 {
		vassume(handler == h)
	}
	var wg sync.WaitGroup
	wg.Add(1)
	go func() {
		defer wg.Done()
		switch handler {
		case 0:
			_ = c.RPCInsertPoints(&RPCInsertPointsRequest{RPCRequestArgs: args, Collection: col, ShardId: "s1"}, &RPCInsertPointsResponse{})
		case 1:
			_ = c.RPCGetShardInfo(&RPCGetShardInfoRequest{RPCRequestArgs: args, Collection: col, ShardId: "s1"}, &RPCGetShardInfoResponse{})
		case 2:
			_ = c.verifOrigRPCUpdatePoints(&RPCUpdatePointsRequest{RPCRequestArgs: args, Collection: col, ShardId: "s1"}, &RPCUpdatePointsResponse{})
		case 3:
			_ = c.verifOrigRPCDeletePoints(&RPCDeletePointsRequest{RPCRequestArgs: args, Collection: col, ShardId: "s1"}, &RPCDeletePointsResponse{})
		case 4:
			_ = c.verifOrigRPCSearchPoints(&RPCSearchPointsRequest{RPCRequestArgs: args, Collection: col, ShardId: "s1", SearchRequest: models.SearchRequest{Query: models.Query{Property: "_id", String: &models.SearchStringOptions{Value: "x", Operator: models.OperatorEquals}}, Limit: 1}}, &RPCSearchPointsResponse{})
		}
	}()
	if withDelete {
		wg.Add(1)
		go func() {
			defer wg.Done()
			_, err := sm.DeleteCollectionShards(col)
			vassert("delete-returns-without-error", err == nil)
		}()
	}
	wg.Wait() // every call returns
	vcover("reached")
	ran := false
	err := sm.DoWithShard(col, "s1", func(s *shard.Shard) error {
		ran = true
		vassert("later-request-runs-on-an-open-shard", vhandleopen(s))
		return nil
	})
	vassert("later-request-is-served-or-cleanly-refused", err != nil || ran)
	if !vsymbolic() {
		sm.DeleteCollectionShards(col)
		os.RemoveAll(root)
	}
}

// ---- C16 at the shard manager: two tenants with confusable ids and the same collection and shard
// names never share a shard object or a directory; deleting one tenant's collection leaves the
// other's shard loaded and on disk.
var verifConfusableIds = [][2]string{
	{"acme|eu", "acme:eu"}, {"a b", "a_b"}, {"Bob", "bob"}, {"bob", "bob "}, {"a.b", "a_b"}, {"x", "x%20"}, {"a+b", "a b"}, {"u1", "u1~"},
}

func VerifTenantShardDirectories() {
	root := verifRootDir()
	sm := NewShardManager(ShardManagerConfig{RootDir: root, ShardTimeout: 30, MaxCacheSize: -1})
	pair := verifConfusableIds[nondetIntRange(0, len(verifConfusableIds)-1)]
	colA := models.Collection{UserId: pair[0], Id: "orders"}
	colB := models.Collection{UserId: pair[1], Id: "orders"}
	var sA, sB *shard.Shard
	vassume(sm.DoWithShard(colA, "s1", func(s *shard.Shard) error { sA = s; return nil }) == nil)
	vassume(sm.DoWithShard(colB, "s1", func(s *shard.Shard) error { sB = s; return nil }) == nil)
	vcover("reached")
	vassert("two-tenants-never-share-a-shard-object", sA != sB)
	_, err := sm.DeleteCollectionShards(colB)
	vassert("delete-ok", err == nil)
	vassert("other-tenants-shard-stays-loaded", vhandleopen(sA))
	vassert("other-tenants-shard-directory-stays-on-disk", vdirexists(root+"/userCollections/"+pair[0]+"/orders/s1"))
	vassert("other-tenants-shard-still-serves-requests", sm.DoWithShard(colA, "s1", func(s *shard.Shard) error {
		vassert("request-runs-on-an-open-shard", vhandleopen(s))
		return nil
	}) == nil)
	if !vsymbolic() {
		sm.DeleteCollectionShards(colA)
		os.RemoveAll(root)
	}
}

// ---- C12 (sequential): after a collection deletion - of a loaded or an unloaded shard - a new
// request loads the shard again and is served on an open shard; the deleted directory is gone in
// between.
func VerifShardReloadAfterDelete() {
	root := verifRootDir()
	sm := NewShardManager(ShardManagerConfig{RootDir: root, ShardTimeout: 30, MaxCacheSize: -1})
	col := models.Collection{UserId: "u", Id: "c"}
	loadedBefore := nondetBool()
	if loadedBefore {
		vassume(sm.DoWithShard(col, "s1", func(s *shard.Shard) error { return nil }) == nil)
	}
	deleted, err := sm.DeleteCollectionShards(col)
	vcover("reached")
	vassert("delete-ok", err == nil)
	if loadedBefore {
		vassert("the-loaded-shard-is-reported-deleted", len(deleted) == 1 && deleted[0] == "s1")
		vassert("shard-directory-removed", !vdirexists(root+"/userCollections/u/c/s1"))
	}
	for attempt := 0; attempt < 2; attempt++ {
		ran := false
		err = sm.DoWithShard(col, "s1", func(s *shard.Shard) error {
			ran = true
			vassert("request-after-deletion-runs-on-an-open-shard", vhandleopen(s))
			return nil
		})
		vassert("request-after-deletion-loads-the-shard-again", err == nil && ran)
	}
	if !vsymbolic() {
		sm.DeleteCollectionShards(col)
		os.RemoveAll(root)
	}
}
