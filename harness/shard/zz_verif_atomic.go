package shard

import (
	"math"

	"github.com/google/uuid"
	"github.com/semafind/semadb/models"
	"github.com/semafind/semadb/shard/cache"
)

// ---- C07: a write batch is all-or-nothing. The harness store rolls back when the write
// closure returns an error (bbolt's contract); decided here: the shard code returns an error
// for every rejected or faulted batch, stops touching storage before the transaction ends,
// drops every shared cache the failed batch wrote, and later queries answer as before.

func atomicSchema() models.IndexSchema {
	return models.IndexSchema{
		"price": {Type: models.IndexTypeInteger},
		"vec":   {Type: models.IndexTypeVectorFlat, VectorFlat: &models.IndexVectorFlatParameters{VectorSize: 2, DistanceMetric: models.DistanceEuclidean}},
	}
}

func vecDoc(price int64, x, y float32) map[string]any {
	return map[string]any{"price": price, "vec": []any{x, y}}
}

type snapshot struct {
	count   uint64
	found   []bool
	prices  []int
	nearest int
	nearDist uint32
	nearIds map[uuid.UUID]int
}

func observe(s *Shard, ids []uuid.UUID) snapshot {
	var sn snapshot
	info, err := s.Info()
	vassert("observe-info-ok", err == nil)
	sn.count = info.PointCount
	for _, id := range ids {
		f, _, err := readDoc(s, id)
		vassert("observe-read-ok", err == nil)
		sn.found = append(sn.found, f)
	}
	for p := int64(0); p < 3; p++ {
		sn.prices = append(sn.prices, priceCount(s, p))
	}
	q := models.Query{Property: "vec", VectorFlat: &models.SearchVectorFlatOptions{Vector: []float32{0, 0}, Operator: models.OperatorNear, Limit: 5}}
	if s.collection.IndexSchema["vec"].Type == models.IndexTypeVectorVamana {
		q = models.Query{Property: "vec", VectorVamana: &models.SearchVectorVamanaOptions{Vector: []float32{0, 0}, Operator: models.OperatorNear, SearchSize: 3, Limit: 3}}
	}
	res, err := s.SearchPoints(models.SearchRequest{Query: q, Limit: 10})
	vassert("observe-vector-search-ok", err == nil)
	sn.nearest = len(res)
	sn.nearIds = resultIds(res)
	if len(res) > 0 && res[0].Distance != nil {
		sn.nearDist = math.Float32bits(*res[0].Distance) // the vector the answer was computed from
	}
	return sn
}

func sameSnapshot(a, b snapshot, ids []uuid.UUID) bool {
	if a.count != b.count || a.nearest != b.nearest || a.nearDist != b.nearDist || len(a.found) != len(b.found) {
		return false
	}
	for i := range a.found {
		if a.found[i] != b.found[i] {
			return false
		}
	}
	for i := range a.prices {
		if a.prices[i] != b.prices[i] {
			return false
		}
	}
	for _, id := range ids {
		if a.nearIds[id] != b.nearIds[id] {
			return false
		}
	}
	return true
}

func VerifBatchAllOrNothing() {
	s, st := verifShard(atomicSchema())
	a, b := nondetUUID(), nondetUUID()
	vassume(a != b)
	ids := []uuid.UUID{a, b}
	vassume(s.InsertPoints([]models.Point{{Id: a, Data: vdoc(vecDoc(0, 1, 1))}}) == nil)
	before := observe(s, ids)
	// the batch under test, with a storage fault at its k-th mutating operation (or none)
	kind := nondetIntRange(0, 3)
	if k := vparam("KIND", -1); k >= 0 {
		vassume(kind == k)
	}
	st.failAt = nondetIntRange(-1, vparam("FAULTS", 12))
	if st.failAt == -1 && vparam("COMMITFAULT", 1) == 1 {
		st.failCommit = nondetBool() // no write fails, but the commit itself may
	}
	st.ops, st.counting = 0, true
	st.useAfterEnd = 0
	st.strict = vparam("STRICT", 1) == 1
	vsched(vparam("DELAYS", 0))
	var err error
	switch kind {
	case 0: // insert a new point
		err = s.InsertPoints([]models.Point{{Id: b, Data: vdoc(vecDoc(1, 2, 2))}})
	case 1: // rejected insert: new point followed by an existing id
		err = s.InsertPoints([]models.Point{{Id: b, Data: vdoc(vecDoc(1, 2, 2))}, {Id: a, Data: vdoc(vecDoc(2, 3, 3))}})
	case 2: // update the stored point (price and vector)
		_, err = s.UpdatePoints([]models.Point{{Id: a, Data: vdoc(vecDoc(2, 5, 5))}})
	case 3: // delete the stored point
		_, err = s.DeletePoints(map[uuid.UUID]struct{}{a: {}})
	}
	st.counting = false
	faulted := (st.failAt >= 0 && st.ops > st.failAt) || st.commitFailed
	vcover("reached")
	vassert("no-storage-access-after-the-transaction-ended", st.useAfterEnd == 0)
	if faulted || kind == 1 {
		vassert("faulted-or-rejected-batch-reports-an-error", err != nil)
	}
	after := observe(s, ids)
	if err != nil {
		vassert("failed-batch-leaves-every-answer-unchanged", sameSnapshot(before, after, ids))
	} else {
		switch kind {
		case 0:
			vassert("successful-insert-is-visible", after.count == before.count+1 && after.found[1] && after.nearIds[b] == 1 && after.prices[1] == before.prices[1]+1)
		case 2:
			vassert("successful-update-is-visible", after.count == before.count && after.prices[2] == 1 && after.prices[0] == 0)
		case 3:
			vassert("successful-delete-is-visible", after.count == 0 && !after.found[0] && after.nearIds[a] == 0)
		}
	}
	vassert("no-storage-access-after-the-transaction-ended-later", st.useAfterEnd == 0)
}

// ---- C07 with a text index: the same all-or-nothing obligation on a collection whose only
// secondary index is the text index (its flush writes the term sets and the document records;
// a fault in any of those writes must fail the batch as a whole).
type textSnapshot struct {
	count  uint64
	found  []bool
	hitsA  int
	hitsB  int
	scoreA uint32
}

func observeText(s *Shard, ids []uuid.UUID) textSnapshot {
	var sn textSnapshot
	info, err := s.Info()
	vassert("observe-info-ok", err == nil)
	sn.count = info.PointCount
	for _, id := range ids {
		f, _, err := readDoc(s, id)
		vassert("observe-read-ok", err == nil)
		sn.found = append(sn.found, f)
	}
	for i, term := range []string{"a", "b"} {
		res, err := s.SearchPoints(models.SearchRequest{Query: models.Query{Property: "body", Text: &models.SearchTextOptions{Value: term, Operator: models.OperatorContainsAny, Limit: 10}}, Limit: 10})
		vassert("observe-text-search-ok", err == nil)
		if i == 0 {
			sn.hitsA = len(res)
			if len(res) > 0 && res[0].Score != nil {
				sn.scoreA = math.Float32bits(*res[0].Score)
			}
		} else {
			sn.hitsB = len(res)
		}
	}
	return sn
}

func VerifTextBatchAllOrNothing() {
	s, st := verifShard(models.IndexSchema{"body": {Type: models.IndexTypeText, Text: &models.IndexTextParameters{Analyser: "standard"}}})
	a, b := nondetUUID(), nondetUUID()
	vassume(a != b)
	ids := []uuid.UUID{a, b}
	vassume(s.InsertPoints([]models.Point{{Id: a, Data: vdoc(map[string]any{"body": "a"})}}) == nil)
	before := observeText(s, ids)
	kind := nondetIntRange(0, 2)
	st.failAt = nondetIntRange(-1, vparam("FAULTS", 12))
	st.ops, st.counting = 0, true
	st.useAfterEnd = 0
	st.strict = true
	var err error
	switch kind {
	case 0: // insert a document sharing a term with the stored one and bringing a new term
		err = s.InsertPoints([]models.Point{{Id: b, Data: vdoc(map[string]any{"body": "ab"})}})
	case 1: // rewrite the stored document
		_, err = s.UpdatePoints([]models.Point{{Id: a, Data: vdoc(map[string]any{"body": "b"})}})
	case 2: // delete it
		_, err = s.DeletePoints(map[uuid.UUID]struct{}{a: {}})
	}
	st.counting = false
	faulted := st.failAt >= 0 && st.ops > st.failAt
	vcover("reached")
	if faulted {
		vcover("faulted")
		vassert("faulted-batch-reports-an-error", err != nil)
	}
	after := observeText(s, ids)
	if err != nil {
		same := before.count == after.count && before.hitsA == after.hitsA && before.hitsB == after.hitsB && before.scoreA == after.scoreA
		for i := range ids {
			same = same && before.found[i] == after.found[i]
		}
		vassert("failed-batch-leaves-every-answer-unchanged", same)
	} else {
		switch kind {
		case 0:
			vassert("successful-insert-is-visible", after.count == 2 && after.hitsA == 2 && after.hitsB == 1)
		case 1:
			vassert("successful-rewrite-is-visible", after.count == 1 && after.hitsA == 0 && after.hitsB == 1)
		case 2:
			vassert("successful-delete-is-visible", after.count == 0 && after.hitsA == 0 && after.hitsB == 0)
		}
	}
	vassert("no-storage-access-after-the-transaction-ended", st.useAfterEnd == 0)
}

// ---- C07 under a slow goroutine: the same faulted insert with concrete ids, explored under the
// freeze regime (any one goroutine of the pipeline stalls at any of its scheduling points until
// nobody else can run): when the write method returns, no goroutine of the batch is left that
// still touches the rolled-back transaction.
func VerifFaultedBatchWithSlowGoroutine() {
	s, st := verifShard(atomicSchema())
	a, b := uuid.UUID{1}, uuid.UUID{2}
	ids := []uuid.UUID{a, b}
	vassume(s.InsertPoints([]models.Point{{Id: a, Data: vdoc(vecDoc(0, 1, 1))}}) == nil)
	before := observe(s, ids)
	st.failAt = nondetIntRange(0, vparam("FAULTS", 12))
	st.ops, st.counting = 0, true
	st.useAfterEnd = 0
	st.strict = true
	st.yieldOnOps = true // storage operations are scheduling points (natively: pause points)
	vsched(1)
	var err error
	switch vparam("KIND", 0) {
	case 0:
		err = s.InsertPoints([]models.Point{{Id: b, Data: vdoc(vecDoc(1, 2, 2))}})
	case 2:
		_, err = s.UpdatePoints([]models.Point{{Id: a, Data: vdoc(vecDoc(2, 5, 5))}})
	case 3:
		_, err = s.DeletePoints(map[uuid.UUID]struct{}{a: {}})
	}
	st.counting = false
	vcover("reached")
	if st.ops > st.failAt {
		vcover("faulted")
		vassert("faulted-batch-reports-an-error", err != nil)
	}
	after := observe(s, ids)
	if err != nil {
		vassert("failed-batch-leaves-every-answer-unchanged", sameSnapshot(before, after, ids))
	}
	vassert("no-storage-access-after-the-transaction-ended", st.useAfterEnd == 0)
}

// ---- C08: answers do not depend on the cache limit (unlimited / no shared caching / a limit
// so small that every cache is pruned after each transaction): the same history of writes and
// searches yields the same observations under all three.
func VerifAnswersIndependentOfCacheLimit() {
	a, b := uuid.UUID{1}, uuid.UUID{2}
	ids := []uuid.UUID{a, b}
	steps := vparam("STEPS", 4)
	ops := make([]int, steps)
	for i := range ops {
		ops[i] = nondetIntRange(0, 4)
	}
	run := func(limit int64) []snapshot {
		s, _ := verifShard(atomicSchema())
		s.cacheManager = cache.NewManager(limit)
		var out []snapshot
		for _, op := range ops {
			switch op {
			case 0:
				s.InsertPoints([]models.Point{{Id: a, Data: vdoc(vecDoc(0, 1, 1))}})
			case 1:
				s.InsertPoints([]models.Point{{Id: b, Data: vdoc(vecDoc(1, 2, 2))}})
			case 2:
				s.UpdatePoints([]models.Point{{Id: a, Data: vdoc(vecDoc(2, 5, 5))}})
			case 3:
				s.DeletePoints(map[uuid.UUID]struct{}{a: {}})
			case 4:
				s.DeletePoints(map[uuid.UUID]struct{}{b: {}})
			}
			out = append(out, observe(s, ids))
		}
		return out
	}
	unlimited := run(-1)
	none := run(0)
	tiny := run(1)
	vcover("reached")
	for i := range unlimited {
		vassert("no-shared-caching-gives-the-same-answers", sameSnapshot(unlimited[i], none[i], ids))
		vassert("pruned-caches-give-the-same-answers", sameSnapshot(unlimited[i], tiny[i], ids))
	}
}

// ---- C07: a batch in which an index rejects a value (a field of the wrong type: the error comes
// from an index stage, not from storage) while more points are still queued behind it. The write
// method returns the error - it does not hang -, no goroutine of the batch touches storage after
// the transaction ended, and every later answer is unchanged.
func VerifIndexRejectedBatch() {
	schema := atomicSchema()
	if vparam("SCHEMA", 0) == 1 {
		schema = graphSchema() // integer index + graph index with its insert workers
	}
	s, st := verifShard(schema)
	a := uuid.UUID{1}
	n := vparam("BATCH", 3)
	ids := []uuid.UUID{a}
	for i := 0; i < n; i++ {
		ids = append(ids, uuid.UUID{byte(i + 2)})
	}
	vassume(s.InsertPoints([]models.Point{{Id: a, Data: vdoc(vecDoc(0, 1, 1))}}) == nil)
	before := observe(s, ids)
	bad := nondetIntRange(0, n-1)
	badField := nondetIntRange(0, 1)
	batch := make([]models.Point, n)
	for i := range batch {
		doc := vecDoc(int64(i), float32(i+2), float32(i+2))
		if i == bad {
			if badField == 0 {
				doc["price"] = "not a number" // rejected by the integer index
			} else {
				doc["vec"] = "not a vector" // rejected by the vector index
			}
		}
		batch[i] = models.Point{Id: ids[i+1], Data: vdoc(doc)}
	}
	st.useAfterEnd = 0
	st.strict = true
	st.yieldOnOps = true
	vsched(1)
	err := s.InsertPoints(batch) // a deadlock of the pipeline is reported by the executor (natively: timeout)
	vcover("reached")
	vassert("batch-rejected-by-an-index-reports-an-error", err != nil)
	after := observe(s, ids)
	vassert("failed-batch-leaves-every-answer-unchanged", sameSnapshot(before, after, ids))
	vassert("no-storage-access-after-the-transaction-ended", st.useAfterEnd == 0)
}
