package shard

import (
	"errors"
	"sync"

	"github.com/semafind/semadb/diskstore"
)

// Harness storage: a transactional DiskStore around the repo's own in-memory buckets.
// Contract (bbolt's, as documented): Write runs on a private copy that replaces the
// committed state only if the closure returns nil; Read sees the last committed state;
// handles of a transaction are invalid once it ended. The k-th Put/Delete (and optionally
// Get) of the store can be made to fail.

var errVerifStorageFault = errors.New("injected storage fault")

type vStore struct {
	committed map[string]diskstore.Bucket
	ops       int  // mutating operations issued so far (in the current window)
	failAt    int  // the failAt-th mutating operation fails (-1: never)
	failCommit bool // the commit of a write transaction whose closure succeeded fails (while counting)
	commitFailed bool
	counting  bool // ops are counted / faults injected only while true
	yieldOnOps  bool // concurrency obligations: storage operations are scheduling points
	strict      bool // flag a use of an ended transaction's handle at the moment it happens
	useAfterEnd int // storage operations observed on handles of an ended transaction
	writes    int
	onReadBegin func()
	writer      sync.Mutex
}

func newVStore() *vStore {
	return &vStore{committed: map[string]diskstore.Bucket{}, failAt: -1}
}

func copyBucket(b diskstore.Bucket) diskstore.Bucket {
	c := diskstore.NewMemBucket(false)
	vmaporder(0)
	b.ForEach(func(k, v []byte) error { return c.Put(append([]byte{}, k...), v) })
	vmaporder(-1)
	return c
}

type vBucket struct {
	inner diskstore.Bucket
	st    *vStore
	ended *bool
	ro    bool
}

func (b vBucket) check() {
	if b.st.yieldOnOps {
		vyield() // a scheduling point (natively: a random short pause) at every storage operation
	}
	if *b.ended {
		b.st.useAfterEnd++
		if b.st.strict {
			// a goroutine of the batch is still working on a transaction that has ended
			// (with bbolt: use of a closed transaction, outside any recover)
			vassert("storage-used-after-its-transaction-ended", false)
		}
	}
}
func (b vBucket) IsReadOnly() bool { return b.ro }
func (b vBucket) Get(k []byte) []byte {
	b.check()
	return b.inner.Get(k)
}
func (b vBucket) ForEach(f func(k, v []byte) error) error {
	b.check()
	return b.inner.ForEach(f)
}
func (b vBucket) PrefixScan(p []byte, f func(k, v []byte) error) error {
	b.check()
	return b.inner.PrefixScan(p, f)
}
func (b vBucket) RangeScan(s, e []byte, inc bool, f func(k, v []byte) error) error {
	b.check()
	return b.inner.RangeScan(s, e, inc, f)
}
func (b vBucket) fault() bool {
	if !b.st.counting {
		return false
	}
	n := b.st.ops
	b.st.ops++
	return n == b.st.failAt
}
func (b vBucket) Put(k, v []byte) error {
	b.check()
	if b.ro {
		return errors.New("read-only bucket")
	}
	if b.fault() {
		return errVerifStorageFault
	}
	return b.inner.Put(k, v)
}
func (b vBucket) Delete(k []byte) error {
	b.check()
	if b.ro {
		return errors.New("read-only bucket")
	}
	if b.fault() {
		return errVerifStorageFault
	}
	return b.inner.Delete(k)
}

type vBM struct {
	st      *vStore
	buckets map[string]diskstore.Bucket
	ended   *bool
	ro      bool
}

func (bm *vBM) Get(name string) (diskstore.Bucket, error) {
	if *bm.ended {
		bm.st.useAfterEnd++
	}
	b, ok := bm.buckets[name]
	if !ok {
		if bm.ro {
			// like the bbolt wrapper: a missing bucket reads as empty in a read transaction
			return vBucket{inner: diskstore.NewMemBucket(true), st: bm.st, ended: bm.ended, ro: true}, nil
		}
		b = diskstore.NewMemBucket(false)
		bm.buckets[name] = b
	}
	return vBucket{inner: b, st: bm.st, ended: bm.ended, ro: bm.ro}, nil
}
func (bm *vBM) Delete(name string) error { delete(bm.buckets, name); return nil }

func (s *vStore) Path() string                { return "verif" }
func (s *vStore) BackupToFile(string) error   { return nil }
func (s *vStore) SizeInBytes() (int64, error) { return 0, nil }
func (s *vStore) Close() error                { return nil }

func (s *vStore) Read(f func(diskstore.BucketManager) error) error {
	snapshot := s.committed // MVCC: the transaction sees the state committed when it began
	if s.onReadBegin != nil {
		s.onReadBegin() // harness pause point right after the transaction began
	}
	ended := new(bool)
	if true {
		err := f(&vBM{st: s, buckets: snapshot, ended: ended, ro: true})
		*ended = true
		return err
	}
	err := f(&vBM{st: s, buckets: s.committed, ended: ended, ro: true})
	*ended = true
	return err
}

func (s *vStore) Write(f func(diskstore.BucketManager) error) error {
	s.writer.Lock() // one read-write transaction at a time, as bbolt
	defer s.writer.Unlock()
	s.writes++
	work := map[string]diskstore.Bucket{}
	for name, b := range s.committed {
		work[name] = copyBucket(b)
	}
	ended := new(bool)
	err := f(&vBM{st: s, buckets: work, ended: ended})
	*ended = true
	if err == nil && s.counting && s.failCommit {
		// the closure succeeded but the commit did not (disk full, I/O error): nothing is installed
		s.commitFailed = true
		return errVerifStorageFault
	}
	if err == nil {
		s.committed = work
	}
	return err
}
