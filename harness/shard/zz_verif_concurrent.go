package shard

import (
	"sync"

	"github.com/google/uuid"
	"github.com/semafind/semadb/models"
	"github.com/semafind/semadb/shard/cache"
)

// ---- C09 (kernel): searches concurrent with each other and with one write batch, on the
// harness store (snapshot per read transaction, handles invalid after the transaction ended)
// and one shared cache manager. Decided: no storage handle is used after its transaction
// ended, no search fails spuriously, every returned id was committed-live at some moment
// during the search.

func graphSchema() models.IndexSchema {
	return models.IndexSchema{
		"price": {Type: models.IndexTypeInteger},
		"vec": {Type: models.IndexTypeVectorVamana, VectorVamana: &models.IndexVectorVamanaParameters{VectorSize: 2, DistanceMetric: models.DistanceEuclidean,
			SearchSize: 3, DegreeBound: 2, Alpha: 1.2}},
	}
}

func vecQuery() models.SearchRequest {
	return models.SearchRequest{Query: models.Query{Property: "vec", VectorVamana: &models.SearchVectorVamanaOptions{Vector: []float32{0, 0}, Operator: models.OperatorNear, SearchSize: 3, Limit: 3}}, Limit: 10}
}

// two searches on a cold (or warmed) shared cache
func VerifConcurrentSearches() {
	s, st := verifShard(graphSchema())
	a, a2 := nondetUUID(), nondetUUID()
	vassume(a != a2)
	vassume(s.InsertPoints([]models.Point{{Id: a, Data: vdoc(vecDoc(0, 1, 1))}, {Id: a2, Data: vdoc(vecDoc(1, 3, 3))}}) == nil)
	warm := vparam("WARM", 0) == 1
	if !warm {
		// cold start: as after a restart, or after the cache was evicted / released
		s.cacheManager = cache.NewManager(-1)
	} else {
		_, err := s.SearchPoints(vecQuery())
		vassume(err == nil)
	}
	st.strict = true
	st.useAfterEnd = 0
	vsched(vparam("DELAYS", 0))
	var wg sync.WaitGroup
	errs := make([]error, 2)
	lens := make([]int, 2)
	for i := 0; i < 2; i++ {
		wg.Add(1)
		go func(i int) {
			defer wg.Done()
			res, err := s.SearchPoints(vecQuery())
			errs[i], lens[i] = err, len(res)
		}(i)
	}
	wg.Wait()
	vcover("reached")
	for i := 0; i < 2; i++ {
		vassert("concurrent-search-does-not-fail", errs[i] == nil)
		vassert("concurrent-search-finds-the-committed-points", errs[i] != nil || lens[i] == 2)
	}
	vassert("no-storage-handle-used-after-its-transaction-ended", st.useAfterEnd == 0)
}

// one search concurrent with one insert batch
func VerifSearchDuringWrite() {
	s, st := verifShard(graphSchema())
	a, b := nondetUUID(), nondetUUID()
	vassume(a != b)
	vassume(s.InsertPoints([]models.Point{{Id: a, Data: vdoc(vecDoc(0, 1, 1))}}) == nil)
	if vparam("WARM", 1) == 1 {
		_, err := s.SearchPoints(vecQuery())
		vassume(err == nil)
	}
	st.strict = true
	st.useAfterEnd = 0
	vsched(vparam("DELAYS", 0))
	var wg sync.WaitGroup
	var serr, werr error
	var got map[uuid.UUID]int
	wg.Add(2)
	go func() {
		defer wg.Done()
		werr = s.InsertPoints([]models.Point{{Id: b, Data: vdoc(vecDoc(1, 2, 2))}})
	}()
	go func() {
		defer wg.Done()
		res, err := s.SearchPoints(vecQuery())
		serr, got = err, resultIds(res)
	}()
	wg.Wait()
	vcover("reached")
	vassert("write-succeeds", werr == nil)
	vassert("search-concurrent-with-a-write-does-not-fail", serr == nil)
	if serr == nil {
		vassert("always-live-point-is-found", got[a] == 1)
		vassert("new-point-at-most-once", got[b] <= 1)
	}
	vassert("no-storage-handle-used-after-its-transaction-ended", st.useAfterEnd == 0)
	// afterwards warm equals the committed state
	res, err := s.SearchPoints(vecQuery())
	vassert("search-after-the-write-sees-both-points", err == nil && len(res) == 2)
}

// witness for D7b: a search whose read transaction began before a write batch committed, but
// which reaches the shared (warm) index cache after that batch published it, traverses a graph
// newer than its snapshot. The order is forced through the store's begin hook, so this is one
// deterministic history.
func VerifSearchSnapshotVsWarmCache() {
	s, st := verifShard(graphSchema())
	a, b := nondetUUID(), nondetUUID()
	vassume(a != b)
	vassume(s.InsertPoints([]models.Point{{Id: a, Data: vdoc(vecDoc(0, 1, 1))}}) == nil)
	_, err := s.SearchPoints(vecQuery()) // warm the shared cache
	vassume(err == nil)
	writerDone := make(chan struct{})
	var once sync.Once
	st.onReadBegin = func() {
		once.Do(func() { <-writerDone }) // the search has its snapshot; now let the writer run to the end
	}
	var wg sync.WaitGroup
	var serr error
	var n int
	wg.Add(1)
	go func() {
		defer wg.Done()
		res, err := s.SearchPoints(vecQuery())
		serr, n = err, len(res)
	}()
	werr := s.InsertPoints([]models.Point{{Id: b, Data: vdoc(vecDoc(1, 2, 2))}})
	close(writerDone)
	wg.Wait()
	st.onReadBegin = nil
	vcover("reached")
	vassert("write-succeeds", werr == nil)
	vassert("search-overlapping-a-commit-does-not-fail", serr == nil)
	vassert("search-overlapping-a-commit-returns-committed-points", serr != nil || n == 1 || n == 2)
}

// C01/C09: two insert batches carrying the same new id, issued concurrently: the storage layer
// admits one writer at a time, so exactly one of them succeeds and the id is stored once.
func VerifConcurrentInsertsSameId() {
	s, _ := verifShard(verifSchema())
	id := nondetUUID()
	vsched(vparam("DELAYS", 0))
	var wg sync.WaitGroup
	errs := make([]error, 2)
	for i := 0; i < 2; i++ {
		wg.Add(1)
		go func(i int) {
			defer wg.Done()
			errs[i] = s.InsertPoints([]models.Point{{Id: id, Data: vdoc(map[string]any{"price": int64(i)})}})
		}(i)
	}
	wg.Wait()
	vcover("reached")
	ok := 0
	for _, e := range errs {
		if e == nil {
			ok++
		}
	}
	vassert("exactly-one-of-two-inserts-of-the-same-id-succeeds", ok == 1)
	info, err := s.Info()
	vassert("id-counted-once", err == nil && info.PointCount == 1)
	found, _, rerr := readDoc(s, id)
	vassert("id-readable", rerr == nil && found)
}

// two concurrent graph searches with DIFFERENT reach on a cold shared cache: one visits only the
// entry node, the other walks on to further nodes and therefore still has to read from storage
// after the first one has finished
func VerifConcurrentSearchesDifferentReach() {
	s, st := verifShard(graphSchema())
	a, b := nondetUUID(), nondetUUID()
	vassume(a != b)
	vassume(s.InsertPoints([]models.Point{{Id: a, Data: vdoc(vecDoc(0, 1, 1))}}) == nil)
	vassume(s.InsertPoints([]models.Point{{Id: b, Data: vdoc(vecDoc(1, 3, 3))}}) == nil)
	s.cacheManager = cache.NewManager(-1) // cold
	st.yieldOnOps = true
	st.strict = true
	st.useAfterEnd = 0
	vsched(vparam("DELAYS", 1))
	var wg sync.WaitGroup
	var errFar, errNear error
	var nFar int
	wg.Add(2)
	go func() { // walks to the far point
		defer wg.Done()
		res, err := s.SearchPoints(models.SearchRequest{Query: models.Query{Property: "vec", VectorVamana: &models.SearchVectorVamanaOptions{Vector: []float32{3, 3}, Operator: models.OperatorNear, SearchSize: 3, Limit: 3}}, Limit: 10})
		errFar, nFar = err, len(res)
	}()
	go func() { // stays at the entry node
		defer wg.Done()
		_, err := s.SearchPoints(models.SearchRequest{Query: models.Query{Property: "vec", VectorVamana: &models.SearchVectorVamanaOptions{Vector: []float32{0.7, 0.7}, Operator: models.OperatorNear, SearchSize: 1, Limit: 1}}, Limit: 10})
		errNear = err
	}()
	wg.Wait()
	vcover("reached")
	vassert("searches-do-not-fail", errFar == nil && errNear == nil)
	vassert("walking-search-finds-both-points", errFar != nil || nFar == 2)
	vassert("no-storage-handle-used-after-its-transaction-ended", st.useAfterEnd == 0)
}

// ---- C08/C09 (sequential history through the shared cache): a search on a brand-new shard,
// then the first insert batches, then searches: the answers are those of the committed state and
// the same from the warm shared cache and from a cold one.
func VerifSearchBeforeFirstInsert() {
	s, _ := verifShard(graphSchema())
	a, b := nondetUUID(), nondetUUID()
	vassume(a != b)
	searchFirst := nondetBool()
	if searchFirst {
		res, err := s.SearchPoints(vecQuery())
		vassert("search-on-an-empty-shard-is-empty-not-an-error", err == nil && len(res) == 0)
	}
	vassume(s.InsertPoints([]models.Point{{Id: a, Data: vdoc(vecDoc(0, 1, 1))}}) == nil)
	if nondetBool() {
		res, err := s.SearchPoints(vecQuery())
		vassert("first-point-is-found", err == nil && len(res) == 1 && res[0].Id == a)
	}
	vassume(s.InsertPoints([]models.Point{{Id: b, Data: vdoc(vecDoc(1, 3, 3))}}) == nil)
	vcover("reached")
	warm, err := s.SearchPoints(vecQuery())
	vassert("warm-search-finds-every-committed-point-nearest-first", err == nil && len(warm) == 2 && warm[0].Id == a && warm[1].Id == b)
	s.cacheManager = cache.NewManager(-1)
	cold, err := s.SearchPoints(vecQuery())
	vassert("cold-search-equals-warm-search", err == nil && len(cold) == 2 && cold[0].Id == a && cold[1].Id == b)
}
