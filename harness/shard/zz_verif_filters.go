package shard

import (
	"strings"

	"github.com/google/uuid"
	"github.com/semafind/semadb/models"
)

// ---- C02 at the shard API: filters after a history of writes that change, add or remove the
// indexed fields (integer + case-insensitive string index), including one batch that moves
// several points at once.

type fDoc struct {
	hasPrice bool
	price    int64
	hasTag   bool
	tag      string
}

func (d fDoc) toMap() map[string]any {
	m := map[string]any{}
	if d.hasPrice {
		m["price"] = d.price
	}
	if d.hasTag {
		m["tag"] = d.tag
	}
	return m
}

var verifTags = []string{"Red", "red", "BLUE"}

func drawFDoc() fDoc {
	d := fDoc{hasPrice: nondetBool()}
	if vparam("TAGS", 1) == 1 {
		d.hasTag = nondetBool()
	}
	if d.hasPrice {
		d.price = nondetInt64()
	}
	if d.hasTag {
		d.tag = verifTags[nondetIntRange(0, len(verifTags)-1)]
	}
	return d
}

func filterSchema() models.IndexSchema {
	return models.IndexSchema{
		"price": {Type: models.IndexTypeInteger},
		"tag":   {Type: models.IndexTypeString, String: &models.IndexStringParameters{CaseSensitive: false}},
	}
}

func resultIds(res []models.SearchResult) map[uuid.UUID]int {
	m := map[uuid.UUID]int{}
	for _, r := range res {
		m[r.Id]++
	}
	return m
}

func checkFilter(s *Shard, label string, q models.Query, ids []uuid.UUID, match []bool) {
	res, err := s.SearchPoints(models.SearchRequest{Query: q, Limit: 100})
	vassert(label+"-search-ok", err == nil)
	if err != nil {
		return
	}
	got := resultIds(res)
	want := 0
	for i, id := range ids {
		if match[i] {
			want++
			vassert(label+"-matching-point-returned-once", got[id] == 1)
		} else {
			vassert(label+"-non-matching-point-not-returned", got[id] == 0)
		}
	}
	vassert(label+"-nothing-else-returned", len(res) == want)
}

func VerifFiltersAfterHistory() {
	s, _ := verifShard(filterSchema())
	n := vparam("PTS", 2)
	ids := make([]uuid.UUID, n)
	docs := make([]fDoc, n)
	live := make([]bool, n)
	batch := make([]models.Point, n)
	for i := range ids {
		ids[i] = nondetUUID()
		for j := 0; j < i; j++ {
			vassume(ids[i] != ids[j])
		}
		docs[i] = drawFDoc()
		live[i] = true
		batch[i] = models.Point{Id: ids[i], Data: vdoc(docs[i].toMap())}
	}
	vassume(s.InsertPoints(batch) == nil)
	// one write batch touching every point: update (set / delete / leave each field) or delete the point
	step := 0
	if vparam("DELETES", 1) == 1 {
		step = nondetIntRange(0, 1)
	}
	if step == 0 {
		upd := make([]models.Point, 0, n)
		for i := range ids {
			m := map[string]any{}
			switch nondetIntRange(0, 2) {
			case 1:
				docs[i].hasPrice, docs[i].price = true, nondetInt64()
				m["price"] = docs[i].price
			case 2:
				docs[i].hasPrice = false
				m["price"] = DELETEVALUE
			}
			tagOp := 0
			if vparam("TAGS", 1) == 1 {
				tagOp = nondetIntRange(0, 2)
			}
			switch tagOp {
			case 1:
				docs[i].hasTag, docs[i].tag = true, verifTags[nondetIntRange(0, len(verifTags)-1)]
				m["tag"] = docs[i].tag
			case 2:
				docs[i].hasTag = false
				m["tag"] = DELETEVALUE
			}
			upd = append(upd, models.Point{Id: ids[i], Data: vdoc(m)})
		}
		updated, err := s.UpdatePoints(upd)
		vassert("update-ok", err == nil && len(updated) == n)
	} else {
		del := map[uuid.UUID]struct{}{}
		for i := range ids {
			if nondetBool() {
				del[ids[i]] = struct{}{}
				live[i] = false
			}
		}
		_, err := s.DeletePoints(del)
		vassert("delete-ok", err == nil)
	}
	vcover("reached")
	// integer filters against the model
	q := nondetInt64()
	for _, op := range []string{models.OperatorEquals, models.OperatorLessOrEq, models.OperatorNotEquals} {
		match := make([]bool, n)
		for i := range ids {
			if !live[i] || !docs[i].hasPrice {
				continue // points that lack the field never match
			}
			switch op {
			case models.OperatorEquals:
				match[i] = docs[i].price == q
			case models.OperatorLessOrEq:
				match[i] = docs[i].price <= q
			case models.OperatorNotEquals:
				match[i] = docs[i].price != q
			}
		}
		checkFilter(s, "int-"+op, models.Query{Property: "price", Integer: &models.SearchIntegerOptions{Value: q, Operator: op}}, ids, match)
	}
	// case-insensitive string filter
	for _, tq := range []string{"RED", "blue"} {
		match := make([]bool, n)
		for i := range ids {
			match[i] = live[i] && docs[i].hasTag && strings.EqualFold(docs[i].tag, tq)
		}
		checkFilter(s, "string-equals", models.Query{Property: "tag", String: &models.SearchStringOptions{Value: tq, Operator: models.OperatorEquals}}, ids, match)
	}
	// _and / _or algebra over the two filters
	{
		and := make([]bool, n)
		or := make([]bool, n)
		for i := range ids {
			a := live[i] && docs[i].hasPrice && docs[i].price == q
			b := live[i] && docs[i].hasTag && strings.EqualFold(docs[i].tag, "red")
			and[i], or[i] = a && b, a || b
		}
		qa := models.Query{Property: "price", Integer: &models.SearchIntegerOptions{Value: q, Operator: models.OperatorEquals}}
		qb := models.Query{Property: "tag", String: &models.SearchStringOptions{Value: "red", Operator: models.OperatorEquals}}
		checkFilter(s, "and", models.Query{Property: "_and", And: []models.Query{qa, qb}}, ids, and)
		checkFilter(s, "or", models.Query{Property: "_or", Or: []models.Query{qa, qb}}, ids, or)
	}
}
