package shard

import (
	"math"
	"strings"

	"github.com/google/uuid"
	"github.com/semafind/semadb/models"
)

// ---- C02 at the shard API: filters after a history of writes that change, add or remove the
// indexed fields (integer + case-insensitive string index), including one batch that moves
// several points at once.

type fDoc struct {
	hasPrice bool
	price    int64
	hasTag   bool
	tag      string
}

func (d fDoc) toMap() map[string]any {
	m := map[string]any{}
	if d.hasPrice {
		m["price"] = d.price
	}
	if d.hasTag {
		m["tag"] = d.tag
	}
	return m
}

var verifTags = []string{"Red", "red", "BLUE"}

func drawFDoc() fDoc {
	d := fDoc{hasPrice: nondetBool()}
	if vparam("TAGS", 1) == 1 {
		d.hasTag = nondetBool()
	}
	if d.hasPrice {
		d.price = nondetInt64()
	}
	if d.hasTag {
		d.tag = verifTags[nondetIntRange(0, len(verifTags)-1)]
	}
	return d
}

func filterSchema() models.IndexSchema {
	return models.IndexSchema{
		"price": {Type: models.IndexTypeInteger},
		"tag":   {Type: models.IndexTypeString, String: &models.IndexStringParameters{CaseSensitive: false}},
	}
}

func resultIds(res []models.SearchResult) map[uuid.UUID]int {
	m := map[uuid.UUID]int{}
	for _, r := range res {
		m[r.Id]++
	}
	return m
}

func checkFilter(s *Shard, label string, q models.Query, ids []uuid.UUID, match []bool) {
	res, err := s.SearchPoints(models.SearchRequest{Query: q, Limit: 100})
	vassert(label+"-search-ok", err == nil)
	if err != nil {
		return
	}
	got := resultIds(res)
	want := 0
	for i, id := range ids {
		if match[i] {
			want++
			vassert(label+"-matching-point-returned-once", got[id] == 1)
		} else {
			vassert(label+"-non-matching-point-not-returned", got[id] == 0)
		}
	}
	vassert(label+"-nothing-else-returned", len(res) == want)
}

func VerifFiltersAfterHistory() {
	s, _ := verifShard(filterSchema())
	n := vparam("PTS", 2)
	ids := make([]uuid.UUID, n)
	docs := make([]fDoc, n)
	live := make([]bool, n)
	batch := make([]models.Point, n)
	for i := range ids {
		ids[i] = nondetUUID()
		for j := 0; j < i; j++ {
			vassume(ids[i] != ids[j])
		}
		docs[i] = drawFDoc()
		live[i] = true
		batch[i] = models.Point{Id: ids[i], Data: vdoc(docs[i].toMap())}
	}
	vassume(s.InsertPoints(batch) == nil)
	// one write batch touching every point: update (set / delete / leave each field) or delete the point
	step := 0
	if vparam("DELETES", 1) == 1 {
		step = nondetIntRange(0, 1)
	}
	if step == 0 {
		upd := make([]models.Point, 0, n)
		for i := range ids {
			m := map[string]any{}
			switch nondetIntRange(0, 2) {
			case 1:
				docs[i].hasPrice, docs[i].price = true, nondetInt64()
				m["price"] = docs[i].price
			case 2:
				docs[i].hasPrice = false
				m["price"] = DELETEVALUE
			}
			tagOp := 0
			if vparam("TAGS", 1) == 1 {
				tagOp = nondetIntRange(0, 2)
			}
			switch tagOp {
			case 1:
				docs[i].hasTag, docs[i].tag = true, verifTags[nondetIntRange(0, len(verifTags)-1)]
				m["tag"] = docs[i].tag
			case 2:
				docs[i].hasTag = false
				m["tag"] = DELETEVALUE
			}
			upd = append(upd, models.Point{Id: ids[i], Data: vdoc(m)})
		}
		updated, err := s.UpdatePoints(upd)
		vassert("update-ok", err == nil && len(updated) == n)
	} else {
		del := map[uuid.UUID]struct{}{}
		for i := range ids {
			if nondetBool() {
				del[ids[i]] = struct{}{}
				live[i] = false
			}
		}
		_, err := s.DeletePoints(del)
		vassert("delete-ok", err == nil)
	}
	vcover("reached")
	// integer filters against the model
	q := nondetInt64()
	for _, op := range []string{models.OperatorEquals, models.OperatorLessOrEq, models.OperatorNotEquals} {
		match := make([]bool, n)
		for i := range ids {
			if !live[i] || !docs[i].hasPrice {
				continue // points that lack the field never match
			}
			switch op {
			case models.OperatorEquals:
				match[i] = docs[i].price == q
			case models.OperatorLessOrEq:
				match[i] = docs[i].price <= q
			case models.OperatorNotEquals:
				match[i] = docs[i].price != q
			}
		}
		checkFilter(s, "int-"+op, models.Query{Property: "price", Integer: &models.SearchIntegerOptions{Value: q, Operator: op}}, ids, match)
	}
	// case-insensitive string filter
	for _, tq := range []string{"RED", "blue"} {
		match := make([]bool, n)
		for i := range ids {
			match[i] = live[i] && docs[i].hasTag && strings.EqualFold(docs[i].tag, tq)
		}
		checkFilter(s, "string-equals", models.Query{Property: "tag", String: &models.SearchStringOptions{Value: tq, Operator: models.OperatorEquals}}, ids, match)
	}
	// _and / _or algebra over the two filters
	{
		and := make([]bool, n)
		or := make([]bool, n)
		for i := range ids {
			a := live[i] && docs[i].hasPrice && docs[i].price == q
			b := live[i] && docs[i].hasTag && strings.EqualFold(docs[i].tag, "red")
			and[i], or[i] = a && b, a || b
		}
		qa := models.Query{Property: "price", Integer: &models.SearchIntegerOptions{Value: q, Operator: models.OperatorEquals}}
		qb := models.Query{Property: "tag", String: &models.SearchStringOptions{Value: "red", Operator: models.OperatorEquals}}
		checkFilter(s, "and", models.Query{Property: "_and", And: []models.Query{qa, qb}}, ids, and)
		checkFilter(s, "or", models.Query{Property: "_or", Or: []models.Query{qa, qb}}, ids, or)
	}
}

// ---- C02 at the shard API, string-array and float fields through the index dispatcher: a point
// is inserted with a label list and a score, updated to another list / score (lists that differ
// only in how their words are split among the elements, scores including both zeros), and the
// filters answer for the current value.
var verifLabelLists = [][]string{{"new york"}, {"new", "york"}, {"york"}, {"york", "new"}}

func VerifArrayAndFloatFiltersAfterUpdate() {
	schema := models.IndexSchema{
		"labels": {Type: models.IndexTypeStringArray, StringArray: &models.IndexStringArrayParameters{IndexStringParameters: models.IndexStringParameters{CaseSensitive: true}}},
		"score":  {Type: models.IndexTypeFloat},
	}
	s, _ := verifShard(schema)
	id := uuid.UUID{9}
	scores := []float64{0, math.Copysign(0, -1), 1.5, -2}
	l0 := verifLabelLists[nondetIntRange(0, len(verifLabelLists)-1)]
	s0 := scores[nondetIntRange(0, len(scores)-1)]
	toAny := func(l []string) []any {
		a := make([]any, len(l))
		for i, w := range l {
			a[i] = w
		}
		return a
	}
	vassume(s.InsertPoints([]models.Point{{Id: id, Data: vdoc(map[string]any{"labels": toAny(l0), "score": s0})}}) == nil)
	cur, curScore := l0, s0
	if nondetBool() {
		cur = verifLabelLists[nondetIntRange(0, len(verifLabelLists)-1)]
		curScore = scores[nondetIntRange(0, len(scores)-1)]
		updated, err := s.UpdatePoints([]models.Point{{Id: id, Data: vdoc(map[string]any{"labels": toAny(cur), "score": curScore})}})
		vassert("update-ok", err == nil && len(updated) == 1)
	}
	vcover("reached")
	has := func(w string) bool {
		for _, x := range cur {
			if x == w {
				return true
			}
		}
		return false
	}
	for _, q := range [][]string{{"new york"}, {"new"}, {"york"}, {"new", "york"}} {
		all, any := true, false
		for _, w := range q {
			if has(w) {
				any = true
			} else {
				all = false
			}
		}
		for _, op := range []string{models.OperatorContainsAll, models.OperatorContainsAny} {
			want := (op == models.OperatorContainsAll && all) || (op == models.OperatorContainsAny && any)
			checkFilter(s, "labels-"+op, models.Query{Property: "labels", StringArray: &models.SearchStringArrayOptions{Value: q, Operator: op}}, []uuid.UUID{id}, []bool{want})
		}
	}
	for _, qv := range []float64{0, math.Copysign(0, -1), 1.5} {
		for _, op := range []string{models.OperatorEquals, models.OperatorLessThan, models.OperatorGreaterOrEq, models.OperatorNotEquals} {
			var want bool
			switch op {
			case models.OperatorEquals:
				want = curScore == qv
			case models.OperatorLessThan:
				want = curScore < qv
			case models.OperatorGreaterOrEq:
				want = curScore >= qv
			case models.OperatorNotEquals:
				want = curScore != qv
			}
			checkFilter(s, "score-"+op, models.Query{Property: "score", Float: &models.SearchFloatOptions{Value: qv, Operator: op}}, []uuid.UUID{id}, []bool{want})
		}
	}
}
