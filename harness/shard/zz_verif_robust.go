package shard

import (
	"github.com/semafind/semadb/distance"
	"github.com/semafind/semadb/models"
)

// ---- C18(2): dimension safety. For every query tree (symbolic shape, vector lengths 0..3,
// both child lists of composite nodes populated independently) that passes Validate and
// ValidateSchema, the real search traversal never hands a vector of the wrong length to a
// distance computation and does not panic.

const verifDim = 2

func robustSchema() models.IndexSchema {
	return models.IndexSchema{
		"vec":   {Type: models.IndexTypeVectorFlat, VectorFlat: &models.IndexVectorFlatParameters{VectorSize: verifDim, DistanceMetric: models.DistanceEuclidean}},
		"price": {Type: models.IndexTypeInteger},
	}
}

func genVector() []float32 { return make([]float32, nondetIntRange(0, 3)) }

func genQuery(depth int) models.Query {
	kinds := 1
	if depth > 0 {
		kinds = 3
	}
	switch nondetIntRange(0, kinds) {
	case 0:
		q := models.Query{Property: "vec", VectorFlat: &models.SearchVectorFlatOptions{Vector: genVector(), Operator: models.OperatorNear, Limit: 1}}
		if depth > 0 && nondetBool() {
			f := genQuery(depth - 1)
			q.VectorFlat.Filter = &f
		}
		return q
	case 1:
		return models.Query{Property: "price", Integer: &models.SearchIntegerOptions{Value: 1, Operator: models.OperatorEquals}}
	default:
		q := models.Query{Property: "_and"}
		if nondetBool() {
			q.Property = "_or"
		}
		for i, n := 0, nondetIntRange(0, 1); i < n; i++ {
			q.And = append(q.And, genQuery(depth-1))
		}
		for i, n := 0, nondetIntRange(0, 1); i < n; i++ {
			q.Or = append(q.Or, genQuery(depth-1))
		}
		return q
	}
}

func VerifValidatedQueriesAreDimensionSafe() {
	distance.VerifInstallDistanceMonitor()
	s, _ := verifShard(robustSchema())
	id := nondetUUID()
	vassume(s.InsertPoints([]models.Point{{Id: id, Data: vdoc(map[string]any{"vec": []any{float32(1), float32(2)}, "price": int64(1)})}}) == nil)
	q := genQuery(vparam("DEPTH", 1))
	req := models.SearchRequest{Query: q, Limit: 10}
	if req.Validate() != nil || q.ValidateSchema(s.collection.IndexSchema) != nil {
		vcover("rejected")
		return
	}
	vcover("reached")
	distance.VerifDistanceMonitor = func(x, y []float32) {
		vassert("vector-of-wrong-length-never-reaches-a-distance-computation", len(x) == verifDim && len(y) == verifDim)
	}
	_, err := s.SearchPoints(req)
	distance.VerifDistanceMonitor = nil
	vassert("validated-query-is-processed-without-error", err == nil)
}
