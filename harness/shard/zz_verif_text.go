package shard

import (
	"github.com/google/uuid"
	"github.com/semafind/semadb/models"
)

// ---- C05 at the shard API (text index with the injected one-token-per-byte analyser):
// inserting, rewriting, emptying and deleting a text field is reflected immediately; the
// pre-filter restricts the answer, also when it is empty.

func textSchema() models.IndexSchema {
	return models.IndexSchema{
		"body":  {Type: models.IndexTypeText, Text: &models.IndexTextParameters{Analyser: "standard"}},
		"price": {Type: models.IndexTypeInteger},
	}
}

var verifTexts = []string{"", "a", "ab", "b"}

func VerifTextThroughShard() {
	s, _ := verifShard(textSchema())
	n := vparam("PTS", 2)
	ids := make([]uuid.UUID, n)
	texts := make([]string, n)
	hasText := make([]bool, n)
	prices := make([]int64, n)
	batch := make([]models.Point, n)
	for i := range ids {
		ids[i] = nondetUUID()
		for j := 0; j < i; j++ {
			vassume(ids[i] != ids[j])
		}
		prices[i] = int64(i)
		m := map[string]any{"price": prices[i]}
		if nondetBool() {
			hasText[i] = true
			texts[i] = verifTexts[nondetIntRange(0, len(verifTexts)-1)]
			m["body"] = texts[i]
		}
		batch[i] = models.Point{Id: ids[i], Data: vdoc(m)}
	}
	vassume(s.InsertPoints(batch) == nil)
	// one more write on point 0: rewrite / empty / remove the field / delete the point / nothing
	live0 := true
	switch nondetIntRange(0, 4) {
	case 1:
		texts[0], hasText[0] = verifTexts[nondetIntRange(0, len(verifTexts)-1)], true
		_, err := s.UpdatePoints([]models.Point{{Id: ids[0], Data: vdoc(map[string]any{"body": texts[0]})}})
		vassert("rewrite-ok", err == nil)
	case 2:
		texts[0], hasText[0] = "", true
		_, err := s.UpdatePoints([]models.Point{{Id: ids[0], Data: vdoc(map[string]any{"body": ""})}})
		vassert("blank-out-ok", err == nil)
	case 3:
		texts[0], hasText[0] = "", false
		_, err := s.UpdatePoints([]models.Point{{Id: ids[0], Data: vdoc(map[string]any{"body": DELETEVALUE})}})
		vassert("remove-field-ok", err == nil)
	case 4:
		live0 = false
		_, err := s.DeletePoints(map[uuid.UUID]struct{}{ids[0]: {}})
		vassert("delete-ok", err == nil)
	}
	vcover("reached")
	term := []string{"a", "b"}[nondetIntRange(0, 1)]
	// filter: none, price <= symbolic bound (possibly selecting nothing)
	var filter *models.Query
	bound := int64(0)
	useFilter := nondetBool()
	if useFilter {
		bound = int64(nondetIntRange(-1, n-1))
		filter = &models.Query{Property: "price", Integer: &models.SearchIntegerOptions{Value: bound, Operator: models.OperatorLessOrEq}}
	}
	res, err := s.SearchPoints(models.SearchRequest{Query: models.Query{Property: "body", Text: &models.SearchTextOptions{Value: term, Operator: models.OperatorContainsAny, Limit: 10, Filter: filter}}, Limit: 10})
	vassert("text-search-ok", err == nil)
	if err != nil {
		return
	}
	got := resultIds(res)
	want := 0
	for i := range ids {
		live := i != 0 || live0
		contains := false
		for k := 0; k < len(texts[i]); k++ {
			if texts[i][k:k+1] == term {
				contains = true
			}
		}
		m := live && hasText[i] && contains && (!useFilter || prices[i] <= bound)
		if m {
			want++
			vassert("document-containing-the-term-is-returned-once", got[ids[i]] == 1)
		} else {
			vassert("document-not-matching-is-not-returned", got[ids[i]] == 0)
		}
	}
	vassert("nothing-else-returned", len(res) == want)
}
