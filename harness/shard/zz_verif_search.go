package shard

import (
	"math"

	"github.com/google/uuid"
	"github.com/semafind/semadb/models"
)

// ---- C06(3): select / sort / offset / limit tail of Shard.SearchPoints, executed inside the
// whole method on the harness store. The query is a filter on the integer index so that the
// result list is the filter-only branch (no ranking): order = ascending node id.

func allPricesQuery() models.Query {
	return models.Query{Property: "price", Integer: &models.SearchIntegerOptions{Value: math.MinInt64, Operator: models.OperatorGreaterOrEq}}
}

func VerifSearchPaging() {
	s, _ := verifShard(verifSchema())
	n := nondetIntRange(0, vparam("PRE", 2))
	ids := []uuid.UUID{}
	for i := 0; i < n; i++ {
		id := nondetUUID()
		for _, o := range ids {
			vassume(id != o)
		}
		err := s.InsertPoints([]models.Point{{Id: id, Data: vdoc(map[string]any{"price": nondetInt64()})}})
		vassume(err == nil)
		ids = append(ids, id)
	}
	// reference order: the unpaged answer
	full, err := s.SearchPoints(models.SearchRequest{Query: allPricesQuery(), Limit: 0})
	vassert("unpaged-search-ok", err == nil && len(full) == n)
	offset, limit := nondetInt(), nondetInt()
	vassume(offset >= 0 && limit >= 0) // what validation lets through (limit 0 = no limit)
	res, err := s.SearchPoints(models.SearchRequest{Query: allPricesQuery(), Offset: offset, Limit: limit})
	vcover("reached")
	vassert("paged-search-ok", err == nil)
	lo := n
	if offset < n {
		lo = offset
	}
	cnt := n - lo
	if limit != 0 && limit < cnt {
		cnt = limit
	}
	vassert("page-length", len(res) == cnt)
	for i := range res {
		if lo+i < len(full) {
			vassert("page-is-the-contiguous-slice", res[i].Id == full[lo+i].Id)
		}
	}
	vobserve("len", uint64(len(res)))
}

func VerifSearchSelect() {
	s, _ := verifShard(verifSchema())
	d := drawDoc()
	id := nondetUUID()
	vassume(s.InsertPoints([]models.Point{{Id: id, Data: vdoc(d.toMap())}}) == nil)
	which := nondetIntRange(0, 5)
	var sel []string
	switch which {
	case 0:
		sel = []string{"price"}
	case 1:
		sel = []string{"extra.k"}
	case 2:
		sel = []string{"note", "extra.k", "price"}
	case 3:
		sel = []string{"*"}
	case 4:
		sel = []string{"missing", "extra.nope", "note.x"}
	case 5:
		sel = []string{"note", "note.sub"} // a nested path through a scalar: documented error, no panic
	}
	sortOpts := []models.SortOption{}
	if which == 3 && nondetBool() {
		sortOpts = []models.SortOption{{Property: "price"}}
	}
	res, err := s.SearchPoints(models.SearchRequest{Query: idQuery(id), Select: sel, Sort: sortOpts, Limit: 10})
	vcover("reached")
	if which == 5 {
		return // a nested path through a scalar: an error or an empty selection, but never a panic
	}
	vassert("select-ok", err == nil && len(res) == 1)
	if err != nil || len(res) != 1 {
		return
	}
	got := res[0].DecodedData
	switch which {
	case 0:
		v, ok := got["price"].(int64)
		vassert("select-plain", ok == d.hasPrice && (!ok || v == d.price))
		vassert("select-plain-only", len(got) == b2i(d.hasPrice))
	case 1:
		e, ok := got["extra"].(map[string]any)
		vassert("select-dotted-rebuilds-nested-map", ok == d.hasExtra)
		if ok {
			k, ok2 := e["k"].(int64)
			vassert("select-dotted-value", ok2 && k == d.extraK && len(e) == 1)
		}
		vassert("select-dotted-only", len(got) == b2i(d.hasExtra))
	case 2:
		vassert("select-many-count", len(got) == b2i(d.hasPrice)+b2i(d.hasNote)+b2i(d.hasExtra))
		if d.hasNote {
			v, ok := got["note"].(string)
			vassert("select-many-note", ok && v == d.note)
		}
	case 3:
		if len(sortOpts) > 0 {
			checkDoc("select-star-with-sort", got, d)
		} else {
			vassert("select-star-leaves-encoded-data", len(got) == 0 && (len(res[0].Data) > 0))
		}
	case 4:
		vassert("select-missing-fields-yield-nothing", len(got) == 0 || (len(got) == 1 && d.hasExtra))
	}
}

func b2i(b bool) int {
	if b {
		return 1
	}
	return 0
}
