package text

import "bytes"

// C19: text index key families (term postings, document records, corpus size) are
// injective and pairwise disjoint.
func VerifTextKeys() {
	// term lengths: every length 0..N plus the boundary lengths around 255/256 bytes
	lens := []int{}
	for i := 0; i <= vparam("N", 3); i++ {
		lens = append(lens, i)
	}
	if vparam("LONG", 1) == 1 {
		lens = append(lens, 255, 256, 257)
	}
	n1 := lens[nondetIntRange(0, len(lens)-1)]
	n2 := lens[nondetIntRange(0, len(lens)-1)]
	t1, t2 := nondetString(n1), nondetString(n2)
	d1, d2 := nondetUint64(), nondetUint64()
	kt1, kt2 := termKey(t1), termKey(t2)
	kd1, kd2 := documentKey(d1), documentKey(d2)
	vcover("reached")
	vassert("term-injective", bytes.Equal(kt1, kt2) == (t1 == t2))
	vassert("doc-injective", bytes.Equal(kd1, kd2) == (d1 == d2))
	vassert("term-vs-doc-disjoint", !bytes.Equal(kt1, kd1))
	vassert("term-vs-numdocs-disjoint", !bytes.Equal(kt1, []byte(numDocumentsKey)))
	vassert("doc-vs-numdocs-disjoint", !bytes.Equal(kd1, []byte(numDocumentsKey)))
	// decoders
	si := &setCacheItem{}
	back, ok := si.IdFromKey(kt1)
	vassert("term-roundtrip", ok && back == t1)
	dc := docCacheItem{}
	bd, okd := dc.IdFromKey(kd1)
	vassert("doc-roundtrip", okd && bd == d1)
	// cross decoding: a document key is never taken for a term key and vice versa
	_, x1 := si.IdFromKey(kd1)
	vassert("doc-key-not-a-term-key", !x1)
	_, x2 := dc.IdFromKey(kt1)
	vassert("term-key-not-a-doc-key", !x2)
	_, x3 := si.IdFromKey([]byte(numDocumentsKey))
	_, x4 := dc.IdFromKey([]byte(numDocumentsKey))
	vassert("numdocs-key-not-an-item-key", !x3 && !x4)
	vobserve("lt", uint64(len(kt1)))
}
