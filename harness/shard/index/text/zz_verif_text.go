package text

import (
	"context"
	"math"

	"github.com/RoaringBitmap/roaring/roaring64"
	"github.com/semafind/semadb/diskstore"
	"github.com/semafind/semadb/models"
	"github.com/semafind/semadb/shard/cache"
)

// ---- C05: text index maintenance, matching, tf-idf scoring, ranking and limit. Tokenisation
// (bleve) is outside: the injected analyser turns every byte of the text into one token, so
// texts over {a,b,c} give every token multiset incl. the empty one (what stop-word-only text
// analyses to).

type vAnalyser struct{}

func (vAnalyser) Analyse(text string) ([]Token, error) {
	toks := make([]Token, 0, len(text))
	for i := 0; i < len(text); i++ {
		toks = append(toks, Token{Term: text[i : i+1], Start: i, End: i + 1})
	}
	return toks, nil
}

var verifCorpus = []string{"", "a", "b", "ab", "aab", "abc", "cc"}

func newTextIndex(b diskstore.Bucket) *indexText {
	it := &indexText{
		analyser: vAnalyser{},
		setCache: cache.NewItemCache[string, *setCacheItem](b),
		docCache: cache.NewItemCache[uint64, docCacheItem](b),
		bucket:   b,
	}
	it.numDocs = it.initSize()
	return it
}

func writeDocs(it *indexText, docs []Document) error {
	q := make(chan Document)
	go func() {
		for _, d := range docs {
			q <- d
		}
		close(q)
	}()
	return <-it.InsertUpdateDelete(context.Background(), q)
}

func termFreq(text, term string) int {
	n := 0
	for i := 0; i < len(text); i++ {
		if text[i:i+1] == term {
			n++
		}
	}
	return n
}

func approx(a, b float32) bool {
	d := float64(a) - float64(b)
	if d < 0 {
		d = -d
	}
	m := math.Abs(float64(a)) + math.Abs(float64(b))
	return d <= 1e-5*m+1e-9
}

func VerifTextIndex() {
	bucket := diskstore.NewMemBucket(false)
	texts := [3]string{} // model: current text of doc 1 and 2 ("" = not indexed)
	if vparam("PRE", 0) == 1 {
		// a second document is already indexed, so that corpus size and document frequencies matter
		vassert("pre-write-ok", writeDocs(newTextIndex(bucket), []Document{{Id: 2, Text: "a"}}) == nil)
		texts[2] = "a"
	}
	nops := nondetIntRange(1, vparam("OPS", 2))
	for i := 0; i < nops; i++ {
		// each write batch is its own transaction over a fresh index object (as the dispatcher does)
		it := newTextIndex(bucket)
		id := uint64(nondetIntRange(1, 2))
		tx := verifCorpus[nondetIntRange(0, vparam("CORPUS", 4))]
		vassert("write-ok", writeDocs(it, []Document{{Id: id, Text: tx}}) == nil)
		texts[id] = tx
	}
	vcover("reached")
	// a fresh index over the bucket (cold) must reflect exactly the model
	it := newTextIndex(bucket)
	n := 0
	for id := 1; id <= 2; id++ {
		if texts[id] != "" {
			n++
		}
	}
	vassert("corpus-size-follows-writes", it.numDocs == uint64(n))
	query := verifCorpus[nondetIntRange(1, vparam("CORPUS", 4))]
	op := models.OperatorContainsAll
	if nondetBool() {
		op = models.OperatorContainsAny
	}
	limit := nondetIntRange(1, 2)
	var filter *roaring64.Bitmap
	inFilter := [3]bool{true, true, true}
	if nondetBool() {
		filter = roaring64.New()
		for id := 1; id <= 2; id++ {
			inFilter[id] = nondetBool()
			if inFilter[id] {
				filter.Add(uint64(id))
			}
		}
	}
	w := float32(1)
	var weight *float32
	if vparam("NEGW", 0) == 1 {
		// concrete negative weight: the cut must still keep the most relevant documents
		w = -1
		weight = &w
	} else if nondetBool() {
		w = nondetFloat32()
		vassume(w == w)
		weight = &w
	}
	rset, res, err := it.Search(models.SearchTextOptions{Value: query, Operator: op, Limit: limit, Weight: weight}, filter)
	vassert("search-ok", err == nil && rset != nil)
	if err != nil || rset == nil {
		return
	}
	// oracle
	qterms := []string{}
	for i := 0; i < len(query); i++ {
		t := query[i : i+1]
		dup := false
		for _, x := range qterms {
			if x == t {
				dup = true
			}
		}
		if !dup {
			qterms = append(qterms, t)
		}
	}
	df := map[string]int{}
	for _, t := range qterms {
		for id := 1; id <= 2; id++ {
			if termFreq(texts[id], t) > 0 {
				df[t]++
			}
		}
	}
	match := [3]bool{}
	score := [3]float32{}
	matches := 0
	for id := 1; id <= 2; id++ {
		if texts[id] == "" || !inFilter[id] {
			continue
		}
		all, any := true, false
		for _, t := range qterms {
			if termFreq(texts[id], t) > 0 {
				any = true
			} else {
				all = false
			}
		}
		match[id] = (op == models.OperatorContainsAll && all) || (op == models.OperatorContainsAny && any)
		if match[id] {
			matches++
			for _, t := range qterms {
				tf := float32(termFreq(texts[id], t)) / float32(len(texts[id]))
				idf := math.Log10(float64(n) / float64(df[t]+1))
				score[id] += tf * float32(idf)
			}
		}
	}
	want := matches
	if want > limit {
		want = limit
	}
	vassert("result-count", len(res) == want)
	vassert("result-set-is-the-result-ids", rset.GetCardinality() == uint64(len(res)))
	for i, r := range res {
		ok := r.NodeId >= 1 && r.NodeId <= 2 && match[r.NodeId]
		vassert("only-matching-documents-in-the-filter", ok)
		if !ok {
			continue
		}
		vassert("score-is-tf-idf", r.Score != nil && approx(*r.Score, score[r.NodeId]))
		vassert("result-set-contains-result", rset.Contains(r.NodeId))
		if r.Score != nil {
			vassert("hybrid-score-is-weight-times-score", r.HybridScore == *r.Score*w || (r.HybridScore != r.HybridScore))
		}
		if i > 0 && res[i-1].Score != nil && r.Score != nil {
			vassert("non-increasing-score", *res[i-1].Score >= *r.Score)
		}
	}
	if len(res) > 0 && len(res) < matches && res[len(res)-1].Score != nil {
		worst := *res[len(res)-1].Score
		for id := 1; id <= 2; id++ {
			kept := false
			for _, r := range res {
				if r.NodeId == uint64(id) {
					kept = true
				}
			}
			if match[id] && !kept {
				vassert("cut-keeps-the-highest-scoring", score[id] <= worst || approx(score[id], worst))
			}
		}
	}
}

// The bleve analyser constructor is taken out of the way (renames.json): every text index
// built while the harnesses are overlaid uses the one-token-per-byte analyser.
func newBeleeveAnalyser(name string) (analyser, error) { return vAnalyser{}, nil }
