package flat

import (
	"context"
	"math"

	"github.com/RoaringBitmap/roaring/roaring64"
	"github.com/semafind/semadb/diskstore"
	"github.com/semafind/semadb/models"
	"github.com/semafind/semadb/shard/vectorstore"
)

// ---- C04(1): IndexFlat.Search is exact k-nearest-neighbour search within the filter, for
// every metric and quantiser at once: the vector store is a harness double whose distance to
// the query is an arbitrary (non-NaN) symbolic value per point and whose enumeration order is
// an arbitrary permutation.

type vPoint struct{ id uint64 }

func (p vPoint) Id() uint64 { return p.id }

type vVecStore struct {
	ids   []uint64
	dists []float32
	order []int
}

func (s *vVecStore) Exists(id uint64) bool { return false }
func (s *vVecStore) Get(id uint64) (vectorstore.VectorStorePoint, error) {
	return vPoint{id}, nil
}
func (s *vVecStore) GetMany(ids ...uint64) ([]vectorstore.VectorStorePoint, error) { return nil, nil }
func (s *vVecStore) Set(id uint64, v []float32) (vectorstore.VectorStorePoint, error) {
	return vPoint{id}, nil
}
func (s *vVecStore) Delete(ids ...uint64) error { return nil }
func (s *vVecStore) ForEach(fn func(vectorstore.VectorStorePoint) error) error {
	for _, k := range s.order {
		if err := fn(vPoint{s.ids[k]}); err != nil {
			return err
		}
	}
	return nil
}
func (s *vVecStore) SizeInMemory() int64               { return 0 }
func (s *vVecStore) UpdateBucket(b diskstore.Bucket)    {}
func (s *vVecStore) Fit() error                         { return nil }
func (s *vVecStore) Flush() error                       { return nil }
func (s *vVecStore) DistanceFromPoint(x vectorstore.VectorStorePoint) vectorstore.PointIdDistFn {
	return nil
}
func (s *vVecStore) DistanceFromFloat(x []float32) vectorstore.PointIdDistFn {
	return func(y vectorstore.VectorStorePoint) float32 {
		for i, id := range s.ids {
			if id == y.Id() {
				return s.dists[i]
			}
		}
		return math.MaxFloat32
	}
}

// same float: identical bit pattern, or both NaN (NaN payload and sign are not specified)
func sameBits(a, b float32) bool { return math.Float32bits(a) == math.Float32bits(b) || (a != a && b != b) }

func VerifFlatSearchExact() {
	n := nondetIntRange(0, vparam("PTS", 3))
	st := &vVecStore{}
	rest := []int{}
	for i := 0; i < n; i++ {
		st.ids = append(st.ids, uint64(i+2))
		d := nondetFloat32()
		vassume(d == d)
		st.dists = append(st.dists, d)
		rest = append(rest, i)
	}
	for len(rest) > 0 {
		k := 0
		if len(rest) > 1 {
			k = nondetIntRange(0, len(rest)-1)
		}
		st.order = append(st.order, rest[k])
		rest = append(rest[:k], rest[k+1:]...)
	}
	inFilter := make([]bool, n)
	var filter *roaring64.Bitmap
	useFilter := nondetBool()
	if useFilter {
		filter = roaring64.New()
	}
	for i := range inFilter {
		inFilter[i] = true
		if useFilter {
			inFilter[i] = nondetBool()
			if inFilter[i] {
				filter.Add(st.ids[i])
			}
		}
	}
	limit := nondetIntRange(1, vparam("LIMIT", 3))
	var weight *float32
	w := float32(1)
	switch nondetIntRange(0, 3) {
	case 1:
		weight = &w // explicit 1
	case 2:
		w = -1 // negative weights are accepted by validation
		weight = &w
	case 3:
		w = nondetFloat32()
		vassume(w == w)
		weight = &w
	}
	inf := IndexFlat{vecStore: st}
	rSet, res, err := inf.Search(context.Background(), models.SearchVectorFlatOptions{Vector: []float32{0}, Operator: "near", Limit: limit, Weight: weight}, filter)
	vcover("reached")
	vassert("search-ok", err == nil && rSet != nil)
	if err != nil || rSet == nil {
		return
	}
	eligible := 0
	for i := range inFilter {
		if inFilter[i] {
			eligible++
		}
	}
	want := eligible
	if want > limit {
		want = limit
	}
	vassert("returns-min-limit-eligible", len(res) == want)
	vassert("result-set-cardinality", rSet.GetCardinality() == uint64(len(res)))
	kept := make([]bool, n)
	for j, r := range res {
		idx := int(r.NodeId) - 2
		vassert("result-is-a-stored-point-in-the-filter", idx >= 0 && idx < n && inFilter[idx])
		if idx < 0 || idx >= n {
			continue
		}
		vassert("no-duplicates", !kept[idx])
		kept[idx] = true
		vassert("reported-distance-is-the-store-distance", r.Distance != nil && sameBits(*r.Distance, st.dists[idx]))
		vassert("hybrid-score-is-minus-weight-times-distance", sameBits(r.HybridScore, -(w*st.dists[idx])))
		vassert("result-set-contains-result", rSet.Contains(r.NodeId))
		if j > 0 && res[j-1].Distance != nil && r.Distance != nil {
			vassert("non-decreasing-distance", *res[j-1].Distance <= *r.Distance)
		}
	}
	if len(res) > 0 && res[len(res)-1].Distance != nil {
		worst := *res[len(res)-1].Distance
		for i := 0; i < n; i++ {
			if inFilter[i] && !kept[i] {
				vassert("omitted-point-is-not-nearer-than-the-last-kept", st.dists[i] >= worst)
			}
		}
	}
}
