package inverted

import (
	"context"
	"strings"

	"github.com/semafind/semadb/diskstore"
	"github.com/semafind/semadb/models"
)

// C02(3,4,5): the inverted index against the mathematical predicate of every operator.
// The index is filled through its own write path (processChange + flush) and queried through
// a FRESH index object over the same bucket (so postings come from storage).

var verifOps = []string{models.OperatorEquals, models.OperatorNotEquals, models.OperatorGreaterThan, models.OperatorGreaterOrEq,
	models.OperatorLessThan, models.OperatorLessOrEq, models.OperatorInRange, models.OperatorStartsWith}

func verifBucket() diskstore.Bucket { return diskstore.NewMemBucket(false) }

func holds[T Invertable](op string, v, q, e T, prefix func(v, q T) bool) bool {
	switch op {
	case models.OperatorEquals:
		return v == q
	case models.OperatorNotEquals:
		return v != q
	case models.OperatorGreaterThan:
		return v > q
	case models.OperatorGreaterOrEq:
		return v >= q
	case models.OperatorLessThan:
		return v < q
	case models.OperatorLessOrEq:
		return v <= q
	case models.OperatorInRange:
		return v >= q && v <= e
	case models.OperatorStartsWith:
		return prefix(v, q)
	}
	return false
}

func searchAgainstOracle[T Invertable](draw func() T, nOps int, prefix func(v, q T) bool) {
	n := nondetIntRange(0, vparam("PTS", 2))
	bucket := verifBucket()
	w := NewIndexInverted[T](bucket)
	vals := make([]T, n)
	for i := range vals {
		vals[i] = draw()
		v := vals[i]
		vassert("insert-ok", w.processChange(IndexChange[T]{Id: uint64(i + 1), CurrentData: &v}) == nil)
	}
	vassert("flush-ok", w.flush() == nil)
	q, e := draw(), draw()
	op := verifOps[nondetIntRange(0, nOps-1)]
	r := NewIndexInverted[T](bucket) // cold reader
	set, err := r.Search(q, e, op)
	vcover("reached")
	vassert("search-ok", err == nil && set != nil)
	if err != nil || set == nil {
		return
	}
	want := 0
	for i, v := range vals {
		h := holds(op, v, q, e, prefix)
		if h {
			want++
		}
		vassert("point-returned-iff-value-satisfies-operator", set.Contains(uint64(i+1)) == h)
	}
	vassert("no-other-ids", set.GetCardinality() == uint64(want))
}

func VerifInvertedSearchInt() {
	searchAgainstOracle[int64](nondetInt64, 7, func(v, q int64) bool { return false })
}

func VerifInvertedSearchFloat() {
	searchAgainstOracle[float64](func() float64 {
		f := nondetFloat64()
		vassume(f == f)
		return f
	}, 7, func(v, q float64) bool { return false })
}

func VerifInvertedSearchString() {
	searchAgainstOracle[string](func() string { return nondetString(nondetIntRange(0, vparam("STR", 2))) }, 8, strings.HasPrefix)
}

// case-insensitive string index: stored values, query value and end value are all folded
// (the oracle folds with the same strings.ToLower; what is decided is that every operand of
// the comparison is folded, not the folding table itself)

func drawASCII(maxLen int) string {
	s := nondetString(nondetIntRange(0, maxLen))
	for i := 0; i < len(s); i++ {
		vassume(s[i] < 0x80)
	}
	return s
}

func VerifStringIndexCaseFolding() {
	caseSensitive := nondetBool()
	n := nondetIntRange(0, vparam("PTS", 2))
	bucket := verifBucket()
	w := NewIndexInvertedString(bucket, models.IndexStringParameters{CaseSensitive: caseSensitive})
	vals := make([]string, n)
	for i := range vals {
		vals[i] = drawASCII(vparam("STR", 2))
		v := vals[i]
		if !caseSensitive {
			v = strings.ToLower(v) // what the write transformer does (checked by the update obligation)
		}
		vassert("insert-ok", w.inner.processChange(IndexChange[string]{Id: uint64(i + 1), CurrentData: &v}) == nil)
	}
	vassert("flush-ok", w.inner.flush() == nil)
	q, e := drawASCII(vparam("STR", 2)), drawASCII(vparam("STR", 2))
	vassume(len(q) > 0) // validation refuses an empty value
	op := verifOps[nondetIntRange(0, 7)]
	if vparam("known_D2", 0) == 1 {
		vassume(op != models.OperatorInRange || caseSensitive)
	}
	r := NewIndexInvertedString(bucket, models.IndexStringParameters{CaseSensitive: caseSensitive})
	set, err := r.Search(models.SearchStringOptions{Value: q, EndValue: e, Operator: op})
	vcover("reached")
	vassert("search-ok", err == nil && set != nil)
	if err != nil || set == nil {
		return
	}
	fq, fe := q, e
	if !caseSensitive {
		fq, fe = strings.ToLower(q), strings.ToLower(e)
	}
	want := 0
	for i, v := range vals {
		fv := v
		if !caseSensitive {
			fv = strings.ToLower(v)
		}
		h := holds(op, fv, fq, fe, strings.HasPrefix)
		if h {
			want++
		}
		vassert("match-under-declared-case-sensitivity", set.Contains(uint64(i+1)) == h)
	}
	vassert("no-other-ids", set.GetCardinality() == uint64(want))
}

// witness for D2: inRange on a case-insensitive index with an upper-case end value
func VerifStringIndexInRangeEndValueFolded() {
	bucket := verifBucket()
	w := NewIndexInvertedString(bucket, models.IndexStringParameters{CaseSensitive: false})
	v := "b"
	vassert("insert-ok", w.inner.processChange(IndexChange[string]{Id: 1, CurrentData: &v}) == nil && w.inner.flush() == nil)
	r := NewIndexInvertedString(bucket, models.IndexStringParameters{CaseSensitive: false})
	set, err := r.Search(models.SearchStringOptions{Value: "a", EndValue: "C", Operator: models.OperatorInRange})
	vcover("reached")
	vassert("inrange-end-value-is-case-folded", err == nil && set != nil && set.Contains(1))
}

// C02(5): posting maintenance, one symbolic change from a consistent pre-state
func VerifInvertedProcessChange() {
	bucket := verifBucket()
	w := NewIndexInverted[int64](bucket)
	n := nondetIntRange(0, vparam("PTS", 2))
	has := make([]bool, 3)
	vals := make([]int64, 3)
	for i := 0; i < n; i++ {
		v := nondetInt64()
		has[i], vals[i] = true, v
		vassert("pre-insert-ok", w.processChange(IndexChange[int64]{Id: uint64(i + 1), CurrentData: &v}) == nil)
	}
	vassert("pre-flush-ok", w.flush() == nil)
	// one change on point k through a new index object (new write transaction)
	w2 := NewIndexInverted[int64](bucket)
	k := nondetIntRange(0, 2)
	ch := IndexChange[int64]{Id: uint64(k + 1)}
	var prev, cur int64
	if has[k] {
		prev = vals[k]
		ch.PreviousData = &prev
	}
	if nondetBool() {
		cur = nondetInt64()
		ch.CurrentData = &cur
	}
	vassert("change-ok", w2.processChange(ch) == nil && w2.flush() == nil)
	has[k] = ch.CurrentData != nil
	vals[k] = cur
	vcover("reached")
	probe := nondetInt64()
	r := NewIndexInverted[int64](bucket)
	set, err := r.Search(probe, 0, models.OperatorEquals)
	vassert("search-ok", err == nil && set != nil)
	if err != nil || set == nil {
		return
	}
	for i := 0; i < 3; i++ {
		vassert("posting-follows-the-change", set.Contains(uint64(i+1)) == (has[i] && vals[i] == probe))
	}
	// empty postings are removed from the bucket
	cnt := 0
	distinct := 0
	bucket.ForEach(func(key, v []byte) error { cnt++; return nil })
	for i := 0; i < 3; i++ {
		if !has[i] {
			continue
		}
		first := true
		for j := 0; j < i; j++ {
			if has[j] && vals[j] == vals[i] {
				first = false
			}
		}
		if first {
			distinct++
		}
	}
	vassert("one-bucket-key-per-live-value", cnt == distinct)
}

// C02(4,5): string-array index. The array diff (values added / removed between the previous and
// the current array, repeated elements included) runs through the real channel pipeline; the
// index is then queried cold with containsAll / containsAny.
var verifWords = []string{"a", "b", "c"}

func drawWords() []string {
	n := nondetIntRange(0, vparam("ARR", 2))
	out := make([]string, n)
	for i := range out {
		out[i] = verifWords[nondetIntRange(0, vparam("WORDS", 3)-1)]
	}
	return out
}

func contains(arr []string, w string) bool {
	for _, x := range arr {
		if x == w {
			return true
		}
	}
	return false
}

func applyArrayChanges(bucket diskstore.Bucket, changes []IndexArrayChange[string]) error {
	inv := NewIndexInvertedArrayString(bucket, models.IndexStringArrayParameters{IndexStringParameters: models.IndexStringParameters{CaseSensitive: true}})
	q := make(chan IndexArrayChange[string])
	go func() {
		for _, c := range changes {
			q <- c
		}
		close(q)
	}()
	return <-inv.InsertUpdateDelete(context.Background(), q)
}

func VerifStringArrayIndex() {
	bucket := verifBucket()
	// point 1 and 2 get arrays, then point 1 is updated (or its field removed)
	a1, a2 := drawWords(), drawWords()
	vassert("insert-ok", applyArrayChanges(bucket, []IndexArrayChange[string]{{Id: 1, CurrentData: a1}, {Id: 2, CurrentData: a2}}) == nil)
	cur1 := a1
	if nondetBool() {
		next := drawWords()
		if nondetBool() {
			next = nil // the field is removed
		}
		vassert("update-ok", applyArrayChanges(bucket, []IndexArrayChange[string]{{Id: 1, PreviousData: a1, CurrentData: next}}) == nil)
		cur1 = next
	}
	vcover("reached")
	query := drawWords()
	vassume(len(query) > 0) // validation refuses an empty value list
	op := models.OperatorContainsAll
	if nondetBool() {
		op = models.OperatorContainsAny
	}
	r := NewIndexInvertedArrayString(bucket, models.IndexStringArrayParameters{IndexStringParameters: models.IndexStringParameters{CaseSensitive: true}})
	set, err := r.Search(models.SearchStringArrayOptions{Value: query, Operator: op})
	vassert("search-ok", err == nil && set != nil)
	if err != nil || set == nil {
		return
	}
	for id, arr := range map[uint64][]string{1: cur1, 2: a2} {
		all, any := true, false
		for _, w := range query {
			if contains(arr, w) {
				any = true
			} else {
				all = false
			}
		}
		want := (op == models.OperatorContainsAll && all) || (op == models.OperatorContainsAny && any)
		vassert("point-returned-iff-its-array-satisfies-the-operator", set.Contains(id) == want)
	}
}
