package inverted

import (
	"bytes"
	"math"
)

// C19: order-preserving key encodings, full width.

func VerifSortableI64() {
	a, b := nondetInt64(), nondetInt64()
	ka, errA := toByteSortable(a)
	kb, errB := toByteSortable(b)
	vcover("reached")
	vassert("no-error", errA == nil && errB == nil)
	vassert("len8", len(ka) == 8 && len(kb) == 8)
	vassert("order", (a < b) == (bytes.Compare(ka, kb) < 0))
	vassert("injective", (a == b) == bytes.Equal(ka, kb))
	var back int64
	vassert("roundtrip", fromByteSortable(ka, &back) == nil && back == a)
	vobserve("k0", uint64(ka[0]))
	vobserve("k7", uint64(ka[7]))
}

func VerifSortableU64() {
	a, b := nondetUint64(), nondetUint64()
	ka, errA := toByteSortable(a)
	kb, errB := toByteSortable(b)
	vcover("reached")
	vassert("no-error", errA == nil && errB == nil)
	vassert("len8", len(ka) == 8 && len(kb) == 8)
	vassert("order", (a < b) == (bytes.Compare(ka, kb) < 0))
	vassert("injective", (a == b) == bytes.Equal(ka, kb))
	var back uint64
	vassert("roundtrip", fromByteSortable(ka, &back) == nil && back == a)
	vobserve("k0", uint64(ka[0]))
}

// non-NaN float64, both zeros, subnormals, infinities. With known finding D1
// open, the region "a or b is -0.0" is excluded here and covered by the witness.
func VerifSortableF64() {
	a, b := nondetFloat64(), nondetFloat64()
	vassume(a == a && b == b)
	if vparam("known_D1", 0) == 1 {
		vassume(!isNegZero(a) && !isNegZero(b))
	}
	ka, errA := toByteSortable(a)
	kb, errB := toByteSortable(b)
	vcover("reached")
	vassert("no-error", errA == nil && errB == nil)
	vassert("len8", len(ka) == 8 && len(kb) == 8)
	vassert("lt-implies-key-lt", !(a < b) || bytes.Compare(ka, kb) < 0)
	vassert("gt-implies-key-gt", !(a > b) || bytes.Compare(ka, kb) > 0)
	vassert("eq-iff-key-eq", (a == b) == bytes.Equal(ka, kb))
	var back float64
	vassert("roundtrip", fromByteSortable(ka, &back) == nil && back == a)
	vobserve("k0", uint64(ka[0]))
	vobserve("k7", uint64(ka[7]))
}

func isNegZero(f float64) bool { return math.Float64bits(f) == 1<<63 }

// Witness for D1: the key of -0.0 must compare equal to the key of +0.0, sort
// between negative and positive numbers, and decode to a zero.
func VerifSortableF64NegZero() {
	var z float64
	nz := -z
	b := nondetFloat64()
	vassume(b == b)
	ka, _ := toByteSortable(nz)
	kb, _ := toByteSortable(b)
	vcover("reached")
	vassert("negzero-lt", !(nz < b) || bytes.Compare(ka, kb) < 0)
	vassert("negzero-gt", !(nz > b) || bytes.Compare(ka, kb) > 0)
	vassert("negzero-eq", (nz == b) == bytes.Equal(ka, kb))
	var back float64
	vassert("negzero-roundtrip", fromByteSortable(ka, &back) == nil && back == nz)
}

// strings: identity encoding, byte order = Go string order
func VerifSortableString() {
	n := nondetIntRange(0, vparam("N", 3))
	m := nondetIntRange(0, vparam("N", 3))
	a, b := nondetString(n), nondetString(m)
	ka, errA := toByteSortable(a)
	kb, errB := toByteSortable(b)
	vcover("reached")
	vassert("no-error", errA == nil && errB == nil)
	vassert("order", (a < b) == (bytes.Compare(ka, kb) < 0))
	vassert("injective", (a == b) == bytes.Equal(ka, kb))
	var back string
	vassert("roundtrip", fromByteSortable(ka, &back) == nil && back == a)
	vobserve("len", uint64(len(ka)))
}
