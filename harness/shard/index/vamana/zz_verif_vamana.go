package vamana

import (
	"context"
	"math"
	"sync"

	"github.com/RoaringBitmap/roaring/roaring64"
	"github.com/semafind/semadb/diskstore"
	"github.com/semafind/semadb/models"
	"github.com/semafind/semadb/shard/cache"
	"github.com/semafind/semadb/shard/vectorstore"
)

// ---- C03 / C10: the Vamana index over a vector-store double whose distances are arbitrary
// (non-NaN) symbolic values memoised per pair of ids: every metric and quantiser at once for
// the structural claims. Node ids: 1 = entry node, 2.. = points.

const vMaxId = 6

type vPoint struct {
	id  uint64
	gen int // which Set of this id produced the object (a cached neighbour must be the current one)
}

func (p vPoint) Id() uint64 { return p.id }

type vVecStore struct {
	has  [vMaxId + 1]bool
	dq   [vMaxId + 1]float32             // distance query -> id
	dm   [vMaxId + 1][vMaxId + 1]float32 // distance id -> id (symmetric)
	dqOk [vMaxId + 1]bool
	dmOk [vMaxId + 1][vMaxId + 1]bool
	distCalls int
	gen  [vMaxId + 1]int
	mu   sync.Mutex // the insert workers call into the store concurrently (natively)
}

func (s *vVecStore) Exists(id uint64) bool { return id <= vMaxId && s.has[id] }
func (s *vVecStore) Get(id uint64) (vectorstore.VectorStorePoint, error) {
	if id > vMaxId || !s.has[id] {
		return nil, cache.ErrNotFound
	}
	return vPoint{id, s.gen[id]}, nil
}
func (s *vVecStore) GetMany(ids ...uint64) ([]vectorstore.VectorStorePoint, error) {
	out := make([]vectorstore.VectorStorePoint, 0, len(ids))
	for _, id := range ids {
		if id <= vMaxId && s.has[id] {
			out = append(out, vPoint{id, s.gen[id]})
		}
	}
	return out, nil
}
func (s *vVecStore) Set(id uint64, v []float32) (vectorstore.VectorStorePoint, error) {
	s.mu.Lock()
	defer s.mu.Unlock()
	if setHook != nil {
		setHook(id, v)
	}
	s.has[id] = true
	if id <= vMaxId {
		s.gen[id]++
	}
	return vPoint{id, s.gen[id]}, nil
}
func (s *vVecStore) Delete(ids ...uint64) error {
	s.mu.Lock()
	defer s.mu.Unlock()
	for _, id := range ids {
		s.has[id] = false
	}
	return nil
}
func (s *vVecStore) ForEach(fn func(vectorstore.VectorStorePoint) error) error {
	for id := uint64(1); id <= vMaxId; id++ {
		if s.has[id] {
			if err := fn(vPoint{id, s.gen[id]}); err != nil {
				return err
			}
		}
	}
	return nil
}
func (s *vVecStore) SizeInMemory() int64            { return 0 }
func (s *vVecStore) UpdateBucket(b diskstore.Bucket) {}
func (s *vVecStore) Fit() error                      { return nil }
func (s *vVecStore) Flush() error                    { return nil }
// slot maps the few large ids used at the visited-set size boundary onto table slots
func slot(id uint64) uint64 {
	switch id {
	case 110000:
		return 6
	case 109999:
		return 5
	}
	return id
}

func (s *vVecStore) qdist(id uint64) float32 {
	s.mu.Lock()
	defer s.mu.Unlock()
	id = slot(id)
	if !s.dqOk[id] {
		d := nondetFloat32()
		vassume(d == d)
		s.dq[id], s.dqOk[id] = d, true
	}
	return s.dq[id]
}
func (s *vVecStore) pdist(a, b uint64) float32 {
	s.mu.Lock()
	defer s.mu.Unlock()
	if a > b {
		a, b = b, a
	}
	if !s.dmOk[a][b] {
		d := nondetFloat32()
		vassume(d == d)
		s.dm[a][b], s.dmOk[a][b] = d, true
	}
	return s.dm[a][b]
}
func (s *vVecStore) DistanceFromFloat(x []float32) vectorstore.PointIdDistFn {
	return func(y vectorstore.VectorStorePoint) float32 { return s.qdist(y.Id()) }
}
func (s *vVecStore) DistanceFromPoint(x vectorstore.VectorStorePoint) vectorstore.PointIdDistFn {
	return func(y vectorstore.VectorStorePoint) float32 { return s.pdist(x.Id(), y.Id()) }
}

func sameF(a, b float32) bool { return math.Float32bits(a) == math.Float32bits(b) || (a != a && b != b) }

type vGraph struct {
	iv     *IndexVamana
	vs     *vVecStore
	bucket diskstore.Bucket
	n      int // points 2..n+1
}

// symbolic well-formed graph: entry node + n points, arbitrary edges within the degree bound
func newGraph(n, degree, searchSize int) *vGraph {
	g := &vGraph{vs: &vVecStore{}, bucket: diskstore.NewMemBucket(false), n: n}
	g.iv = &IndexVamana{
		parameters: models.IndexVectorVamanaParameters{VectorSize: 2, DistanceMetric: "euclidean", SearchSize: searchSize, DegreeBound: degree, Alpha: 1.2},
		vecStore:   g.vs,
		nodeStore:  cache.NewItemCache[uint64, *graphNode](g.bucket),
		bucket:     g.bucket,
	}
	top := uint64(n + 1)
	for id := uint64(1); id <= top; id++ {
		g.vs.has[id] = true
	}
	for id := uint64(1); id <= top; id++ {
		node := &graphNode{Id: id}
		for to := uint64(1); to <= top; to++ {
			if to != id && nondetBool() {
				node.edges = append(node.edges, to)
			}
		}
		if id != STARTID {
			vassume(len(node.edges) <= degree)
		}
		g.iv.nodeStore.Put(id, node) // Put marks the cache element dirty; the node's own flag stays clear
	}
	g.iv.maxNodeId.Store(top)
	// the pre-state is a committed one: everything flushed, nothing dirty (every write batch ends
	// with a flush); optionally the node cache is cold
	vassume(g.iv.nodeStore.Flush() == nil)
	if vparam("COLD", 0) == 1 && nondetBool() {
		g.iv.nodeStore = cache.NewItemCache[uint64, *graphNode](g.bucket)
	}
	return g
}

// wellFormed checks the C10 invariant over ids 1..top
func (g *vGraph) wellFormed(label string, top uint64) {
	for id := uint64(1); id <= top; id++ {
		node, err := g.iv.nodeStore.Get(id)
		if !g.vs.has[id] {
			vassert(label+"-no-graph-node-without-a-vector", err == cache.ErrNotFound)
			continue
		}
		vassert(label+"-one-graph-node-per-stored-vector", err == nil && node != nil)
		if err != nil || node == nil {
			continue
		}
		if id != STARTID {
			vassert(label+"-degree-bound", len(node.edges) <= g.iv.parameters.DegreeBound)
		}
		for i, e := range node.edges {
			vassert(label+"-edge-leads-to-an-existing-node", e >= 1 && e <= top && g.vs.has[e])
			vassert(label+"-no-self-edge", e != id)
			for j := 0; j < i; j++ {
				vassert(label+"-no-duplicate-edge", node.edges[j] != e)
			}
		}
		if node.isNeighLoaded.Load() {
			vassert(label+"-cached-neighbours-agree-with-edges", len(node.neighbours) == len(node.edges))
			for i := range node.neighbours {
				if i < len(node.edges) {
					vassert(label+"-cached-neighbour-ids-agree", node.neighbours[i].Id() == node.edges[i])
				}
				if vp, ok := node.neighbours[i].(vPoint); ok && vp.id <= vMaxId {
					vassert(label+"-cached-neighbour-is-the-current-vector-of-that-point", vp.gen == g.vs.gen[vp.id])
				}
			}
		}
	}
	vassert(label+"-max-node-id-bounds-ids-in-use", g.iv.maxNodeId.Load() >= top || !g.vs.has[top])
}

// C03(2,3): Search / greedySearch on an arbitrary well-formed graph
func VerifVamanaSearch() {
	n := nondetIntRange(0, vparam("N", 1))
	searchSize := nondetIntRange(2, vparam("SS", 3))
	g := newGraph(n, vparam("R", 2), searchSize)
	top := uint64(n + 1)
	var filter *roaring64.Bitmap
	inFilter := [vMaxId + 1]bool{}
	useFilter := nondetBool()
	if useFilter {
		filter = roaring64.New()
		for id := uint64(2); id <= top; id++ {
			if nondetBool() {
				filter.Add(id)
				inFilter[id] = true
			}
		}
	}
	limit := nondetIntRange(1, searchSize)
	var weight *float32
	w := float32(1)
	if nondetBool() {
		w = -1
		weight = &w
	}
	rset, res, err := g.iv.Search(context.Background(), models.SearchVectorVamanaOptions{Vector: []float32{0, 0}, Operator: "near", SearchSize: searchSize, Limit: limit, Filter: nil, Weight: weight}, filter)
	vcover("reached")
	vassert("search-never-fails-on-a-well-formed-graph", err == nil && rset != nil)
	if err != nil || rset == nil {
		return
	}
	vassert("at-most-limit", len(res) <= limit)
	vassert("result-set-cardinality", rset.GetCardinality() == uint64(len(res)))
	for i, r := range res {
		vassert("never-the-entry-node", r.NodeId != STARTID)
		vassert("only-stored-points", r.NodeId >= 2 && r.NodeId <= top)
		if useFilter && r.NodeId <= vMaxId {
			vassert("only-points-in-the-filter", inFilter[r.NodeId])
		}
		for j := 0; j < i; j++ {
			vassert("no-duplicates", res[j].NodeId != r.NodeId)
		}
		if r.NodeId <= vMaxId {
			vassert("reported-distance-is-the-store-distance", r.Distance != nil && sameF(*r.Distance, g.vs.qdist(r.NodeId)))
			vassert("hybrid-score-is-minus-weight-times-distance", sameF(r.HybridScore, -(w*g.vs.qdist(r.NodeId))))
		}
		if i > 0 && res[i-1].Distance != nil && r.Distance != nil {
			vassert("non-decreasing-distance", *res[i-1].Distance <= *r.Distance)
		}
		vassert("result-set-contains-result", rset.Contains(r.NodeId))
	}
	// exactness when the search window holds the whole graph: every node reachable from the entry
	// node is visited, so the answer is the exact top-k of the reachable stored points
	if !useFilter && searchSize >= n+1 {
		reach := [vMaxId + 1]bool{}
		reach[STARTID] = true
		for round := 0; round <= n; round++ {
			for id := uint64(1); id <= top; id++ {
				if !reach[id] {
					continue
				}
				if node, err := g.iv.nodeStore.Get(id); err == nil && node != nil {
					for _, e := range node.edges {
						if e <= vMaxId {
							reach[e] = true
						}
					}
				}
			}
		}
		reachable := 0
		for id := uint64(2); id <= top; id++ {
			if reach[id] {
				reachable++
			}
		}
		want := reachable
		if want > limit {
			want = limit
		}
		vassert("window-covering-the-graph-gives-exact-knn-count-of-reachable-points", len(res) == want)
		if len(res) > 0 && res[len(res)-1].Distance != nil {
			worst := *res[len(res)-1].Distance
			for id := uint64(2); id <= top; id++ {
				if !reach[id] {
					continue
				}
				found := false
				for _, r := range res {
					if r.NodeId == id {
						found = true
					}
				}
				if !found {
					vassert("window-covering-the-graph-omits-nothing-nearer", g.vs.qdist(id) >= worst)
				}
			}
		}
	}
	// exactness for a filter smaller than the search window: exact top-k of the filter members
	if useFilter {
		members := 0
		for id := uint64(2); id <= top; id++ {
			if inFilter[id] {
				members++
			}
		}
		if members <= searchSize {
			want := members
			if want > limit {
				want = limit
			}
			vassert("small-filter-gives-exact-filtered-knn-count", len(res) == want)
			if len(res) > 0 && res[len(res)-1].Distance != nil {
				worst := *res[len(res)-1].Distance
				for id := uint64(2); id <= top; id++ {
					if !inFilter[id] {
						continue
					}
					found := false
					for _, r := range res {
						if r.NodeId == id {
							found = true
						}
					}
					if !found {
						vassert("small-filter-omits-nothing-nearer", g.vs.qdist(id) >= worst)
					}
				}
			}
		}
	}
}

// C10(1): insertSinglePoint preserves well-formedness from an arbitrary well-formed pre-state
func VerifVamanaInsertStep() {
	n := nondetIntRange(0, vparam("N", 1))
	g := newGraph(n, vparam("R", 2), vparam("SS", 3))
	top := uint64(n + 1)
	g.wellFormed("pre", top)
	newId := top + 1
	err := g.iv.insertSinglePoint(IndexVectorChange{Id: newId, Vector: []float32{0, 0}})
	if newId > g.iv.maxNodeId.Load() {
		g.iv.maxNodeId.Store(newId) // done by the caller (insertUpdateDelete) for inserts
	}
	vcover("reached")
	vassert("insert-never-fails-on-a-well-formed-graph", err == nil)
	g.wellFormed("post", newId)
	// the new node is linked: it has an edge unless the graph had no other node with a vector to link to
	nodeA, gerr := g.iv.nodeStore.Get(newId)
	vassert("new-node-stored", gerr == nil && nodeA != nil)
	if gerr == nil && nodeA != nil {
		vassert("new-node-has-an-outgoing-edge", len(nodeA.edges) >= 1)
		for _, e := range nodeA.edges {
			nb, err := g.iv.nodeStore.Get(e)
			vassert("neighbour-exists", err == nil && nb != nil)
		}
	}
	// a search afterwards cannot fail
	_, _, serr := g.iv.Search(context.Background(), models.SearchVectorVamanaOptions{Vector: []float32{1, 1}, Operator: "near", SearchSize: vparam("SS", 3), Limit: 1}, nil)
	vassert("search-after-insert-never-fails", serr == nil)
}

// C10(2): removing inbound edges of a delete set and deleting the nodes preserves well-formedness
func VerifVamanaDeleteStep() {
	n := nondetIntRange(1, vparam("N", 2))
	g := newGraph(n, vparam("R", 2), vparam("SS", 3))
	top := uint64(n + 1)
	deleteSet := map[uint64]struct{}{}
	var ids []uint64
	for id := uint64(2); id <= top; id++ {
		if nondetBool() {
			deleteSet[id] = struct{}{}
			ids = append(ids, id)
		}
	}
	vassume(len(ids) > 0)
	err := g.iv.removeInboundEdges(deleteSet)
	vcover("reached")
	vassert("remove-inbound-edges-never-fails-on-a-well-formed-graph", err == nil)
	if err != nil {
		return
	}
	vassert("vector-delete-ok", g.vs.Delete(ids...) == nil)
	vassert("node-delete-ok", g.iv.nodeStore.Delete(ids...) == nil)
	g.wellFormed("post", top)
	for id := uint64(1); id <= top; id++ {
		if _, gone := deleteSet[id]; gone {
			continue
		}
		node, err := g.iv.nodeStore.Get(id)
		if err != nil || node == nil {
			continue
		}
		for _, e := range node.edges {
			_, gone := deleteSet[e]
			vassert("no-edge-to-a-deleted-node", !gone)
		}
	}
	_, _, serr := g.iv.Search(context.Background(), models.SearchVectorVamanaOptions{Vector: []float32{1, 1}, Operator: "near", SearchSize: vparam("SS", 3), Limit: 1}, nil)
	vassert("search-after-delete-never-fails", serr == nil)
	// and the state survives a flush: a cold node store sees the same graph
	// remember the warm edge lists, flush, and compare with what a cold node store reads back:
	// every change to an edge list (also the rescue edges of the entry node) must be persisted
	warmEdges := map[uint64][]uint64{}
	for id := uint64(1); id <= top; id++ {
		if node, err := g.iv.nodeStore.Get(id); err == nil && node != nil {
			warmEdges[id] = append([]uint64{}, node.edges...)
		}
	}
	vassert("flush-ok", g.iv.nodeStore.Flush() == nil)
	g.iv.nodeStore = cache.NewItemCache[uint64, *graphNode](g.bucket)
	g.wellFormed("cold", top)
	for id := uint64(1); id <= top; id++ {
		node, err := g.iv.nodeStore.Get(id)
		w, had := warmEdges[id]
		vassert("cold-node-exists-iff-warm-node-exists", (err == nil) == had)
		if err == nil && had {
			vassert("cold-edge-list-length-equals-warm", len(node.edges) == len(w))
			for i := range w {
				if i < len(node.edges) {
					vassert("cold-edge-list-equals-warm", node.edges[i] == w[i])
				}
			}
		}
	}
}

// C10(3,5): a whole write batch through insertUpdateDelete (real pipeline, one insert worker):
// inserts (possibly with descending ids), a vector update, a delete.
func VerifVamanaBatch() {
	g := newGraph(1, vparam("R", 2), vparam("SS", 3)) // entry node + point 2
	g.iv.maxNodeId.Store(2)
	lastSet := map[uint64]*float32{}
	setHook = func(id uint64, v []float32) {
		if len(v) > 0 {
			lastSet[id] = &v[0]
		}
	}
	defer func() { setHook = nil }()
	kind := nondetIntRange(0, 3)
	var batch []IndexVectorChange
	newVec := []float32{3, 4}
	expectLive := [vMaxId + 1]bool{}
	expectLive[1], expectLive[2] = true, true
	switch kind {
	case 0: // two inserts, larger id first
		batch = []IndexVectorChange{{Id: 4, Vector: []float32{1, 1}}, {Id: 3, Vector: []float32{2, 2}}}
		expectLive[3], expectLive[4] = true, true
	case 1: // update of the stored vector
		batch = []IndexVectorChange{{Id: 2, Vector: newVec}}
	case 2: // delete
		batch = []IndexVectorChange{{Id: 2, Vector: nil}}
		expectLive[2] = false
	case 3: // insert + update in one batch
		batch = []IndexVectorChange{{Id: 3, Vector: []float32{1, 1}}, {Id: 2, Vector: newVec}}
		expectLive[3] = true
	}
	q := make(chan IndexVectorChange)
	go func() {
		for _, c := range batch {
			q <- c
		}
		close(q)
	}()
	err := <-g.iv.InsertUpdateDelete(context.Background(), q)
	vcover("reached")
	vassert("batch-ok", err == nil)
	if err != nil {
		return
	}
	for id := uint64(1); id <= 4; id++ {
		vassert("vector-store-membership", g.vs.has[id] == expectLive[id])
	}
	g.wellFormed("post", 4)
	vassert("max-node-id-bounds-every-id-in-use", g.iv.maxNodeId.Load() >= 2 && (!expectLive[3] || g.iv.maxNodeId.Load() >= 3) && (!expectLive[4] || g.iv.maxNodeId.Load() >= 4))
	if kind == 1 || kind == 3 {
		vassert("updated-vector-is-stored", lastSet[2] == &newVec[0])
	}
	// persisted: the recorded max node id and the graph survive a cold reload
	cold := cache.NewItemCache[uint64, *graphNode](g.bucket)
	g.iv.nodeStore = cold
	g.wellFormed("cold", 4)
	stored := g.bucket.Get([]byte(MAXNODEIDKEY))
	vassert("max-node-id-persisted", stored != nil)
}

var setHook func(id uint64, v []float32)

// C03(1): DistSet.AddWithLimit / Add / Sort, one step from an arbitrary sorted duplicate-free state
func VerifDistSetStep() {
	vs := &vVecStore{}
	capacity := nondetIntRange(1, vparam("CAP", 3))
	// visited-set flavour: map (max id 0), pooled bitset with ids inside, and with an id exactly
	// at the size-class boundary (the bitset has to grow)
	var maxId uint64
	ids := []uint64{2, 3, 4, 5}
	switch nondetIntRange(0, 2) {
	case 1:
		maxId = 5
	case 2:
		maxId = 110000
		ids = []uint64{2, 110000, 3, 109999}
	}
	ds := NewDistSet(capacity, maxId, vs.DistanceFromFloat(nil))
	pre := nondetIntRange(0, capacity)
	for i := 0; i < pre; i++ {
		ds.AddWithLimit(vPoint{id: ids[i]})
	}
	// now add one more point: either a new id or one seen before
	k := nondetIntRange(0, len(ids)-1)
	seenBefore := k < pre
	before := len(ds.items)
	ds.AddWithLimit(vPoint{id: ids[k]})
	vcover("reached")
	vassert("capacity-respected", len(ds.items) <= capacity)
	if seenBefore {
		vassert("seen-id-is-not-added-again", len(ds.items) == before)
	}
	for i := range ds.items {
		for j := 0; j < i; j++ {
			vassert("no-duplicate-ids", ds.items[i].Point.Id() != ds.items[j].Point.Id())
		}
		if i > 0 {
			vassert("sorted-by-distance", ds.items[i-1].Distance <= ds.items[i].Distance)
		}
		vassert("distance-is-the-store-distance", sameF(ds.items[i].Distance, vs.qdist(ds.items[i].Point.Id())))
	}
	// the set holds the `capacity` smallest of the points offered so far
	offered := append([]uint64{}, ids[:pre]...)
	if !seenBefore {
		offered = append(offered, ids[k])
	}
	if len(ds.items) > 0 {
		worst := ds.items[len(ds.items)-1].Distance
		for _, id := range offered {
			kept := false
			for _, it := range ds.items {
				if it.Point.Id() == id {
					kept = true
				}
			}
			if !kept {
				vassert("dropped-point-is-not-nearer-than-the-worst-kept", vs.qdist(id) >= worst)
				vassert("points-are-dropped-only-when-full", len(ds.items) == capacity)
			}
		}
	}
	ds.Release()
}

// C10 under the parallel insert workers (NUMCPU-1 of them): a batch of two inserts into a small
// arbitrary graph, explored under the scheduling regime of the obligation: the graph is
// well-formed afterwards (degree bound in particular) whatever the interleaving.
func VerifVamanaParallelInsert() {
	g := newGraph(vparam("N", 1), vparam("R", 1), vparam("SS", 2))
	top := uint64(vparam("N", 1) + 1)
	g.iv.maxNodeId.Store(top)
	batch := []IndexVectorChange{{Id: top + 1, Vector: []float32{1, 1}}, {Id: top + 2, Vector: []float32{2, 2}}}
	q := make(chan IndexVectorChange)
	go func() {
		for _, c := range batch {
			q <- c
		}
		close(q)
	}()
	vsched(vparam("DELAYS", 1))
	err := <-g.iv.InsertUpdateDelete(context.Background(), q)
	vcover("reached")
	vassert("batch-ok", err == nil)
	if err != nil {
		return
	}
	g.wellFormed("post", top+2)
	cold := cache.NewItemCache[uint64, *graphNode](g.bucket)
	g.iv.nodeStore = cold
	g.wellFormed("cold", top+2)
}

// C10: one pruneDeleteNeighbour step from an arbitrary neighbourhood: node A (id 2) with up to R
// edges, some of them to nodes that are being deleted, each deleted node with up to R edges of
// its own, over 6 node ids. Only A's and the deleted nodes' edge lists matter to this step, the
// others are left empty. Afterwards A respects the degree bound and has no edge to a deleted
// node, to itself or twice to the same node.
func VerifPruneDeleteNeighbourStep() {
	const top = 6
	r := vparam("R", 2)
	g := &vGraph{vs: &vVecStore{}, bucket: diskstore.NewMemBucket(false), n: top - 1}
	g.iv = &IndexVamana{
		parameters: models.IndexVectorVamanaParameters{VectorSize: 2, DistanceMetric: "euclidean", SearchSize: 3, DegreeBound: r, Alpha: 1.2},
		vecStore:   g.vs,
		nodeStore:  cache.NewItemCache[uint64, *graphNode](g.bucket),
		bucket:     g.bucket,
	}
	for id := uint64(1); id <= top; id++ {
		g.vs.has[id] = true
	}
	drawEdges := func(self uint64) []uint64 {
		var e []uint64
		for to := uint64(1); to <= top; to++ {
			if to != self && len(e) < r && nondetBool() {
				e = append(e, to)
			}
		}
		return e
	}
	nodes := map[uint64]*graphNode{}
	for id := uint64(1); id <= top; id++ {
		nodes[id] = &graphNode{Id: id}
	}
	nodes[2].edges = drawEdges(2)
	deleteSet := map[uint64]struct{}{}
	for _, e := range nodes[2].edges {
		if e != STARTID && nondetBool() {
			deleteSet[e] = struct{}{}
			nodes[e].edges = drawEdges(e)
		}
	}
	vassume(len(deleteSet) > 0)
	for id := uint64(1); id <= top; id++ {
		g.iv.nodeStore.Put(id, nodes[id])
	}
	pointA, err := g.vs.Get(2)
	vassume(err == nil)
	err = g.iv.pruneDeleteNeighbour(pointA, nodes[2], deleteSet)
	vcover("reached")
	vassert("prune-delete-neighbour-ok", err == nil)
	after := nodes[2].edges
	vassert("degree-bound-after-pruning-a-deleted-neighbour", len(after) <= r)
	for i, e := range after {
		_, gone := deleteSet[e]
		vassert("no-edge-to-a-deleted-node", !gone)
		vassert("no-self-edge", e != 2)
		vassert("edge-leads-to-an-existing-node", e >= 1 && e <= top)
		for j := 0; j < i; j++ {
			vassert("no-duplicate-edge", after[j] != e)
		}
	}
}
