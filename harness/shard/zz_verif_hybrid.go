package shard

import (
	"github.com/google/uuid"
	"github.com/semafind/semadb/models"
)

// ---- C06(1): hybrid merge. A composite query over two ranking sub-queries (flat vector
// indexes v1, v2) and optionally a non-ranking filter, through the whole Shard.SearchPoints:
// result set = union (_or) / intersection (_and); each point once; its hybrid score is the sum of
// the contributions -(weight*distance) of the sub-results that contain it; ranked points come
// first ordered by that score, points matched only by the filter follow.

func hybridSchema() models.IndexSchema {
	return models.IndexSchema{
		"v1":    {Type: models.IndexTypeVectorFlat, VectorFlat: &models.IndexVectorFlatParameters{VectorSize: 1, DistanceMetric: models.DistanceEuclidean}},
		"v2":    {Type: models.IndexTypeVectorFlat, VectorFlat: &models.IndexVectorFlatParameters{VectorSize: 1, DistanceMetric: models.DistanceEuclidean}},
		"price": {Type: models.IndexTypeInteger},
	}
}

func topK(d []float32, k int) []bool {
	in := make([]bool, len(d))
	for n := 0; n < k && n < len(d); n++ {
		best := -1
		for i := range d {
			if !in[i] && (best < 0 || d[i] < d[best]) {
				best = i
			}
		}
		in[best] = true
	}
	return in
}

func VerifHybridMerge() {
	s, _ := verifShard(hybridSchema())
	n := vparam("PTS", 3)
	ids := make([]uuid.UUID, n)
	x1, x2 := make([]float32, n), make([]float32, n)
	price := make([]int64, n)
	batch := make([]models.Point, n)
	for i := range ids {
		ids[i] = nondetUUID()
		for j := 0; j < i; j++ {
			vassume(ids[i] != ids[j])
		}
		x1[i], x2[i] = float32(nondetIntRange(1, 3)), float32(nondetIntRange(1, 3))
		for j := 0; j < i; j++ {
			vassume(x1[i] != x1[j] && x2[i] != x2[j]) // no distance ties within one index
		}
		price[i] = int64(nondetIntRange(0, 1))
		batch[i] = models.Point{Id: ids[i], Data: vdoc(map[string]any{"v1": []any{x1[i]}, "v2": []any{x2[i]}, "price": price[i]})}
	}
	vassume(s.InsertPoints(batch) == nil)
	l1, l2 := nondetIntRange(1, n), nondetIntRange(1, n)
	w1 := float32(1)
	var weight1 *float32
	switch nondetIntRange(0, 2) {
	case 1:
		w1 = 2
		weight1 = &w1
	case 2:
		w1 = 0.5
		weight1 = &w1
	}
	q1 := models.Query{Property: "v1", VectorFlat: &models.SearchVectorFlatOptions{Vector: []float32{0}, Operator: models.OperatorNear, Limit: l1, Weight: weight1}}
	q2 := models.Query{Property: "v2", VectorFlat: &models.SearchVectorFlatOptions{Vector: []float32{0}, Operator: models.OperatorNear, Limit: l2}}
	subs := []models.Query{q1, q2}
	withFilter := nondetBool()
	if withFilter {
		subs = append(subs, models.Query{Property: "price", Integer: &models.SearchIntegerOptions{Value: 1, Operator: models.OperatorEquals}})
	}
	isOr := nondetBool()
	q := models.Query{Property: "_and", And: subs}
	if isOr {
		q = models.Query{Property: "_or", Or: subs}
	}
	res, err := s.SearchPoints(models.SearchRequest{Query: q, Limit: 100})
	vcover("reached")
	vassert("hybrid-search-ok", err == nil)
	if err != nil {
		return
	}
	// reference
	d1, d2 := make([]float32, n), make([]float32, n)
	for i := range ids {
		d1[i], d2[i] = x1[i]*x1[i], x2[i]*x2[i]
	}
	in1, in2 := topK(d1, l1), topK(d2, l2)
	want := 0
	inSet := make([]bool, n)
	ranked := make([]bool, n)
	score := make([]float32, n)
	for i := range ids {
		f := !withFilter || price[i] == 1
		if isOr {
			inSet[i] = in1[i] || in2[i] || (withFilter && price[i] == 1)
		} else {
			inSet[i] = in1[i] && in2[i] && f
		}
		if !inSet[i] {
			continue
		}
		want++
		if in1[i] {
			ranked[i] = true
			score[i] += -1 * w1 * d1[i]
		}
		if in2[i] {
			ranked[i] = true
			score[i] += -1 * 1 * d2[i]
		}
	}
	vassert("result-count-is-set-size", len(res) == want)
	seenFilterOnly := false
	for k, r := range res {
		idx := -1
		for i := range ids {
			if ids[i] == r.Id {
				idx = i
			}
		}
		vassert("result-belongs-to-the-combined-set", idx >= 0 && inSet[idx])
		if idx < 0 {
			continue
		}
		for j := 0; j < k; j++ {
			vassert("each-point-once", res[j].Id != r.Id)
		}
		if ranked[idx] {
			vassert("ranked-points-come-before-filter-only-points", !seenFilterOnly)
			vassert("hybrid-score-is-the-sum-of-contributions", r.HybridScore == score[idx])
			if k > 0 {
				vassert("ranked-points-ordered-by-hybrid-score", res[k-1].HybridScore >= r.HybridScore)
			}
		} else {
			seenFilterOnly = true
		}
	}
}
