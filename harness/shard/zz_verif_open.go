package shard

import (
	"github.com/semafind/semadb/models"
	"go.etcd.io/bbolt"
)

var _ = bbolt.ErrTimeout

// ---- C12: loading a shard either yields an open shard or a clean error that leaves the shard
// file closed (a file left open keeps its lock: every later load of the shard blocks in
// bbolt.Open while the shard manager holds its global lock); closing releases it.
func VerifNewShardReleasesFile() {
	path := vscratchpath()
	col := models.Collection{UserId: "u", Id: "c"}
	switch nondetIntRange(0, 2) {
	case 0:
		col.IndexSchema = models.IndexSchema{"price": {Type: models.IndexTypeInteger}}
	case 1: // a schema collection creation would have refused
		col.IndexSchema = models.IndexSchema{"vec": {Type: models.IndexTypeVectorVamana}}
	case 2:
		col.IndexSchema = models.IndexSchema{"t": {Type: "nosuchindex"}}
	}
	s, err := NewShard(path, col, nil)
	vcover("reached")
	if err != nil {
		vassert("refused-load-leaves-the-shard-file-closed", !vboltlocked(path))
		return
	}
	vassert("loaded-shard-holds-its-file", vboltlocked(path))
	vassert("close-ok", s.Close() == nil)
	vassert("closed-shard-releases-its-file", !vboltlocked(path))
	s2, err := NewShard(path, col, nil)
	vassert("shard-can-be-loaded-again", err == nil)
	if err == nil {
		s2.Close()
	}
}
