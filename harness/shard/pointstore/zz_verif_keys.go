package pointstore

import (
	"bytes"

	"github.com/google/uuid"
	"github.com/semafind/semadb/conversion"
)

func nondetUUID() uuid.UUID {
	var u uuid.UUID
	for i := range u {
		u[i] = nondetByte()
	}
	return u
}

// C19: point keys are injective over (uuid, suffix) and never collide with node keys.
func VerifPointKey() {
	u1, u2 := nondetUUID(), nondetUUID()
	s1, s2 := nondetByte(), nondetByte()
	k1, k2 := PointKey(u1, s1), PointKey(u2, s2)
	vcover("reached")
	vassert("len18", len(k1) == 18 && k1[0] == 'p' && k1[17] == s1)
	vassert("injective", bytes.Equal(k1, k2) == (u1 == u2 && s1 == s2))
	var back uuid.UUID
	copy(back[:], k1[1:17])
	vassert("uuid-recoverable", back == u1)
	nk := conversion.NodeKey(nondetUint64(), nondetByte())
	vassert("disjoint-from-node-keys", !bytes.Equal(nk, k1))
	vobserve("k1", uint64(k1[1]))
}
