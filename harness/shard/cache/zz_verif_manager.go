package cache

import (
	"errors"
	"sync"
)

// ---- C11: the shared-cache transaction protocol, real Manager/Transaction code with
// harness callbacks. Ghost monitors live in the cached items.

type vItem struct {
	id       int
	size     int64
	writerTx int  // transaction inside its write window on this object (0: none)
	dead     bool // written by a transaction that failed: must never be handed out again
	inside   int  // callbacks currently running on this object
	writes   int
	version  int // committed-storage version this object reflects
}

func (v *vItem) SizeInMemory() int64 { return v.size }

type vEnv struct {
	m        *Manager
	created  int
	storeW   sync.Mutex // the storage layer admits one writer at a time
	cbErr    error
	crErr    error
	lastItem [64]*vItem   // per tx: object seen by the last callback (array: no concurrent map writes natively)
	version  int            // version of the committed storage
	noStoreLock bool
}

func newEnv(maxSize int64) *vEnv {
	return &vEnv{m: NewManager(maxSize), cbErr: errors.New("callback failed"), crErr: errors.New("create failed")}
}

func (e *vEnv) createFn(fail bool, size int64) func() (Cachable, error) {
	return func() (Cachable, error) {
		vyield()
		if fail {
			return nil, e.crErr
		}
		e.created++
		return &vItem{id: e.created, size: size, version: e.version}, nil
	}
}

// allLocksFree: the manager lock and the lock of every cache the manager still shares are free
// (locks on private, unreachable cold copies cannot block anyone and are not counted).
func (e *vEnv) allLocksFree() bool {
	if !e.m.mu.TryLock() {
		return false
	}
	ok := true
	for _, s := range e.m.sharedCaches {
		if s.mu.TryLock() {
			s.mu.Unlock()
		} else {
			ok = false
		}
	}
	e.m.mu.Unlock()
	return ok
}

// access runs one With call of transaction tx and applies the monitors.
func (e *vEnv) access(t *Transaction, tx int, name string, readOnly, createFails, cbFails bool, ran *bool) error {
	return t.With(name, readOnly, e.createFn(createFails, 1), func(c Cachable) error {
		it := c.(*vItem)
		*ran = true
		vassert("scrapped-object-never-handed-out-again", !it.dead)
		vassert("no-other-transaction-inside-a-write-window", it.writerTx == 0 || it.writerTx == tx)
		if !readOnly {
			vassert("writer-is-alone-on-the-object", it.inside == 0 || it.writerTx == tx)
			it.writerTx = tx
			it.writes++
			it.version = e.version + 1 // uncommitted content of this writer
		}
		it.inside++
		vyield()
		it.inside--
		e.lastItem[tx] = it
		if cbFails {
			if !readOnly || it.writerTx == tx {
				it.dead = true
			}
			return e.cbErr
		}
		return nil
	})
}

// finish ends transaction tx: objects it wrote leave their write window; on failure they are dead.
func (e *vEnv) finish(t *Transaction, tx int, fail bool, wrote []*vItem) {
	for _, it := range wrote {
		if it != nil && it.writerTx == tx {
			if fail || t.failed.Load() {
				it.dead = true
			}
			it.writerTx = 0
		}
	}
	t.Commit(fail)
}

// (1) sequential, fault-symbolic
func VerifCacheSequential() {
	var maxSize int64
	switch nondetIntRange(0, 2) {
	case 0:
		maxSize = -1
	case 1:
		maxSize = 0
	default:
		maxSize = 1
	}
	e := newEnv(maxSize)
	// a warm-up transaction may have left caches behind
	if nondetBool() {
		t0 := e.m.NewTransaction()
		ran := false
		vassume(e.access(t0, 9, "A", false, false, false, &ran) == nil)
		e.finish(t0, 9, false, []*vItem{e.lastItem[9]})
	}
	t := e.m.NewTransaction()
	n := nondetIntRange(1, vparam("CALLS", 2))
	names := []string{"A", "B"}
	failedSoFar := false
	var wrote []*vItem
	for i := 0; i < n; i++ {
		name := names[nondetIntRange(0, 1)]
		ro, crF, cbF := nondetBool(), nondetBool(), nondetBool()
		ran := false
		err := e.access(t, 1, name, ro, crF, cbF, &ran)
		if failedSoFar {
			vassert("after-failure-with-returns-error-without-running-callback", err != nil && !ran)
		}
		if ran && cbF {
			vassert("callback-error-is-returned", err != nil)
		}
		if ran && !cbF {
			vassert("successful-callback-returns-nil", err == nil)
		}
		if ran && !ro {
			wrote = append(wrote, e.lastItem[1])
		}
		if err != nil {
			failedSoFar = true
		}
	}
	fail := nondetBool()
	e.finish(t, 1, fail, wrote)
	vcover("reached")
	vassert("all-locks-released-after-commit", e.allLocksFree())
	// a later transaction makes progress on both caches and never sees a dead object
	t2 := e.m.NewTransaction()
	for _, name := range names {
		ran := false
		err := e.access(t2, 2, name, nondetBool(), false, false, &ran)
		vassert("later-transaction-makes-progress", err == nil && ran)
	}
	e.finish(t2, 2, false, nil)
	vassert("all-locks-released-at-the-end", e.allLocksFree())
	if maxSize == 0 {
		vassert("no-shared-caching-when-disabled", len(e.m.sharedCaches) == 0)
	}
}

// writerTx runs a writing transaction the way shard.go does: storage write lock around the
// With calls (possibly from two goroutines, as the index dispatcher does), Commit after the
// storage lock is released.
func (e *vEnv) writerTx(tx int, names []string, parallel bool, cbFails []bool, commitFail bool, done *sync.WaitGroup) {
	defer done.Done()
	t := e.m.NewTransaction()
	if !e.noStoreLock {
		e.storeW.Lock()
	}
	wrote := make([]*vItem, len(names))
	anyErr := false
	if parallel {
		var wg sync.WaitGroup
		var mu sync.Mutex
		for i := range names {
			wg.Add(1)
			go func(i int) {
				defer wg.Done()
				ran := false
				err := e.access(t, tx, names[i], false, false, cbFails[i], &ran)
				mu.Lock()
				if err != nil {
					anyErr = true
				}
				if ran {
					wrote[i] = e.lastItem[tx*10+i]
				}
				mu.Unlock()
			}(i)
		}
		wg.Wait()
	} else {
		for i := range names {
			ran := false
			if err := e.access(t, tx, names[i], false, false, cbFails[i], &ran); err != nil {
				anyErr = true
			}
		}
	}
	if !anyErr && !commitFail {
		e.version++ // the storage transaction commits here
	}
	if !e.noStoreLock {
		e.storeW.Unlock()
	}
	vyield()
	// collect the objects this transaction wrote (from the real bookkeeping)
	var objs []*vItem
	for _, s := range t.writtenCaches {
		if it, ok := s.item.(*vItem); ok {
			objs = append(objs, it)
		}
	}
	e.finish(t, tx, anyErr || commitFail, objs)
}

func (e *vEnv) readerTx(tx int, name string, done *sync.WaitGroup) {
	defer done.Done()
	t := e.m.NewTransaction()
	ran := false
	err := e.access(t, tx, name, true, false, false, &ran)
	vassert("reader-never-fails-or-blocks-out", err == nil && ran)
	t.Commit(false)
}

// (2a) two writers (the second touching two caches from two goroutines) and the previous
// writer's Commit still pending: every call returns, locks end up free.
func VerifCacheTwoWriters() {
	e := newEnv(-1)
	// cache A exists already (shared), B does not
	t0 := e.m.NewTransaction()
	ran := false
	vassume(e.access(t0, 9, "A", false, false, false, &ran) == nil)
	e.finish(t0, 9, false, []*vItem{e.lastItem[9]})
	var done sync.WaitGroup
	done.Add(2)
	fail1 := nondetBool()
	go e.writerTx(1, []string{"A"}, false, []bool{false}, fail1, &done)
	go e.writerTx(2, []string{"A", "B"}, vparam("PARALLEL", 1) == 1, []bool{false, false}, false, &done)
	done.Wait()
	vcover("reached")
	vassert("all-locks-released-at-the-end", e.allLocksFree())
	t3 := e.m.NewTransaction()
	ran3 := false
	vassert("later-transaction-makes-progress", e.access(t3, 3, "A", false, false, false, &ran3) == nil && ran3)
	vassert("later-transaction-sees-committed-state", e.lastItem[3] != nil && e.lastItem[3].version == e.version+1)
	t3.Commit(false)
	vassert("all-locks-released-after-later-transaction", e.allLocksFree())
}

// (2b) a writer and readers on the same cache: readers proceed (on the shared object only
// outside the writer's window, else on a private cold copy), failed state is never seen.
func VerifCacheWriterReaders() {
	e := newEnv(-1)
	if nondetBool() { // warm or cold start
		t0 := e.m.NewTransaction()
		ran := false
		vassume(e.access(t0, 9, "A", false, false, false, &ran) == nil)
		e.finish(t0, 9, false, []*vItem{e.lastItem[9]})
	}
	var done sync.WaitGroup
	nr := vparam("READERS", 1)
	done.Add(1 + nr)
	cbFail, commitFail := nondetBool(), nondetBool()
	go e.writerTx(1, []string{"A"}, false, []bool{cbFail}, commitFail, &done)
	for r := 0; r < nr; r++ {
		go e.readerTx(2+r, "A", &done)
	}
	done.Wait()
	vcover("reached")
	vassert("all-locks-released-at-the-end", e.allLocksFree())
	t3 := e.m.NewTransaction()
	ran3 := false
	vassert("later-transaction-makes-progress", e.access(t3, 3, "A", true, false, false, &ran3) == nil && ran3)
	vassert("later-transaction-sees-committed-state", e.lastItem[3] != nil && e.lastItem[3].version == e.version)
	t3.Commit(false)
}

// (2c) three writers on one cache without any outer serialisation, the first may fail:
// every call returns and the lock protocol recovers.
func VerifCacheThreeWritersOneCache() {
	e := newEnv(-1)
	e.noStoreLock = true
	if nondetBool() {
		t0 := e.m.NewTransaction()
		ran := false
		vassume(e.access(t0, 9, "A", false, false, false, &ran) == nil)
		e.finish(t0, 9, false, []*vItem{e.lastItem[9]})
	}
	var done sync.WaitGroup
	done.Add(3)
	f1, f2 := nondetBool(), nondetBool()
	go e.writerTx(1, []string{"A"}, false, []bool{f1}, f2, &done)
	go e.writerTx(2, []string{"A"}, false, []bool{false}, false, &done)
	go e.writerTx(3, []string{"A"}, false, []bool{false}, false, &done)
	done.Wait()
	vcover("reached")
	vassert("all-locks-released-at-the-end", e.allLocksFree())
	t4 := e.m.NewTransaction()
	ran4 := false
	vassert("later-transaction-makes-progress", e.access(t4, 4, "A", false, false, false, &ran4) == nil && ran4)
	t4.Commit(false)
}
