package cache

import (
	"github.com/semafind/semadb/conversion"
	"github.com/semafind/semadb/diskstore"
)

// ---- C08(1): ItemCache write-back protocol. abstraction(cache + bucket) is preserved by
// every operation and after Flush the bucket alone carries it: a FRESH cache over the bucket
// answers like the warm one and like the model.

type vStorable struct {
	val   int64
	dirty bool // item-level dirty flag (as quantised points use it)
}

func (v *vStorable) SizeInMemory() int64 { return 8 }
func (v *vStorable) IdFromKey(key []byte) (uint64, bool) {
	return conversion.NodeIdFromKey(key, 'x')
}
func (v *vStorable) CheckAndClearDirty() bool {
	d := v.dirty
	v.dirty = false
	return d
}
func (v *vStorable) ReadFrom(id uint64, bucket diskstore.Bucket) (*vStorable, error) {
	b := bucket.Get(conversion.NodeKey(id, 'x'))
	if b == nil {
		return nil, ErrNotFound
	}
	return &vStorable{val: int64(conversion.BytesToUint64(b))}, nil
}
func (v *vStorable) WriteTo(id uint64, bucket diskstore.Bucket) error {
	return bucket.Put(conversion.NodeKey(id, 'x'), conversion.Uint64ToBytes(uint64(v.val)))
}
func (v *vStorable) DeleteFrom(id uint64, bucket diskstore.Bucket) error {
	return bucket.Delete(conversion.NodeKey(id, 'x'))
}

type icModel struct {
	has [3]bool
	val [3]int64
}

func checkCacheAgainstModel(label string, ic *ItemCache[uint64, *vStorable], m *icModel) {
	n := 0
	for id := uint64(1); id <= 2; id++ {
		v, err := ic.Get(id)
		if m.has[id] {
			n++
			vassert(label+"-get-returns-stored-value", err == nil && v != nil && v.val == m.val[id])
		} else {
			vassert(label+"-get-of-absent-item-is-not-found", err == ErrNotFound)
		}
	}
	seen := 0
	err := ic.ForEach(func(id uint64, item *vStorable) error {
		seen++
		vassert(label+"-foreach-visits-only-live-items", id >= 1 && id <= 2 && m.has[id] && item.val == m.val[id])
		return nil
	})
	vassert(label+"-foreach-visits-every-live-item-once", err == nil && seen == n)
	vassert(label+"-count", ic.Count() == n)
}

func VerifItemCacheWriteBack() {
	bucket := diskstore.NewMemBucket(false)
	m := &icModel{}
	// pre-state: some items already persisted by an earlier transaction
	pre := NewItemCache[uint64, *vStorable](bucket)
	for id := uint64(1); id <= 2; id++ {
		if nondetBool() {
			m.has[id], m.val[id] = true, nondetInt64()
			pre.Put(id, &vStorable{val: m.val[id]})
		}
	}
	vassume(pre.Flush() == nil)
	// a (possibly warm) cache runs a symbolic operation sequence
	ic := pre
	if nondetBool() {
		ic = NewItemCache[uint64, *vStorable](bucket) // cold
	}
	nops := nondetIntRange(0, vparam("OPS", 2))
	for i := 0; i < nops; i++ {
		id := uint64(nondetIntRange(1, 2))
		switch nondetIntRange(0, 5) {
		case 0:
			v, err := ic.Get(id)
			vassert("get-during-sequence", (err == nil && m.has[id] && v.val == m.val[id]) || (err == ErrNotFound && !m.has[id]))
		case 1:
			m.has[id], m.val[id] = true, nondetInt64()
			ic.Put(id, &vStorable{val: m.val[id]})
		case 2:
			vassert("delete-ok", ic.Delete(id) == nil)
			m.has[id] = false
		case 3:
			// in-place modification announced through the item's own dirty flag
			if v, err := ic.Get(id); err == nil {
				v.val = nondetInt64()
				v.dirty = true
				m.val[id] = v.val
			}
		case 4:
			cnt := 0
			if m.has[1] {
				cnt++
			}
			if m.has[2] {
				cnt++
			}
			vassert("count-during-sequence", ic.Count() == cnt)
		case 5:
			vassert("intermediate-flush-ok", ic.Flush() == nil)
		}
	}
	vcover("reached")
	checkCacheAgainstModel("warm", ic, m)
	vassert("flush-ok", ic.Flush() == nil)
	checkCacheAgainstModel("warm-after-flush", ic, m)
	cold := NewItemCache[uint64, *vStorable](bucket)
	checkCacheAgainstModel("cold", cold, m)
	// the bucket holds exactly one key per live item
	keys := 0
	bucket.ForEach(func(k, v []byte) error { keys++; return nil })
	n := 0
	if m.has[1] {
		n++
	}
	if m.has[2] {
		n++
	}
	vassert("bucket-has-one-key-per-live-item", keys == n)
}
