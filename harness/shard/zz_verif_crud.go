package shard

import (
	"github.com/google/uuid"
	"github.com/semafind/semadb/models"
	"github.com/semafind/semadb/shard/cache"
	"github.com/vmihailenco/msgpack/v5"
)

// ---- C01: insert / update / delete against a plain reference model, through the whole
// Shard methods (real pipeline, dispatcher, inverted index, point store, id counter, cache
// transaction) on the harness store. Documents range over a 3-key universe.

type vDoc struct {
	hasPrice bool
	price    int64
	hasNote  bool
	note     string
	hasExtra bool
	extraK   int64
	extraJ   bool // the nested object also has a second key "j" (inserted documents)
	extraLit bool // the nested "k" holds the literal string "_delete" (a nested marker is data, updates merge shallowly)
}

func (d vDoc) toMap() map[string]any {
	m := map[string]any{}
	if d.hasPrice {
		m["price"] = d.price
	}
	if d.hasNote {
		m["note"] = d.note
	}
	if d.hasExtra {
		e := map[string]any{"k": d.extraK}
		if d.extraLit {
			e["k"] = DELETEVALUE
		}
		if d.extraJ {
			e["j"] = int64(7)
		}
		m["extra"] = e
	}
	return m
}

// drawDoc: presence of the indexed field is always symbolic; RICH=1 also varies the
// unindexed string field and the nested map, RICH=0 fixes them to present.
func drawDoc() vDoc {
	d := vDoc{hasPrice: nondetBool(), hasNote: true, hasExtra: true, note: "red"}
	if vparam("RICH", 0) == 1 {
		d.hasNote, d.hasExtra = nondetBool(), nondetBool()
	}
	if vparam("EMPTYDOC", 0) == 1 && !d.hasPrice && nondetBool() {
		d.hasNote, d.hasExtra = false, false // the empty document
	}
	if d.hasPrice {
		d.price = nondetInt64()
	}
	if d.hasNote {
		d.note = "red"
	} else {
		d.note = ""
	}
	if d.hasExtra {
		d.extraK = nondetInt64()
		d.extraJ = true
	}
	return d
}

func nondetUUID() uuid.UUID {
	var u uuid.UUID
	for i := range u {
		u[i] = nondetByte()
	}
	return u
}

func verifSchema() models.IndexSchema {
	return models.IndexSchema{"price": {Type: models.IndexTypeInteger}}
}

func verifShard(schema models.IndexSchema) (*Shard, *vStore) {
	st := newVStore()
	col := models.Collection{UserId: "u", Id: "c", UserPlan: models.UserPlan{MaxPointSize: 1 << 30}, IndexSchema: schema}
	return &Shard{dbFile: "db", db: st, collection: col, cacheManager: cache.NewManager(-1)}, st
}

func idQuery(id uuid.UUID) models.Query {
	return models.Query{Property: "_id", String: &models.SearchStringOptions{Value: id.String(), Operator: models.OperatorEquals}}
}

// readDoc reads a point back by id with select-all semantics.
func readDoc(s *Shard, id uuid.UUID) (found bool, doc map[string]any, err error) {
	res, err := s.SearchPoints(models.SearchRequest{Query: idQuery(id), Select: []string{"*"}, Limit: 10})
	if err != nil {
		return false, nil, err
	}
	if len(res) == 0 {
		return false, nil, nil
	}
	vassert("read-by-id-returns-one-point", len(res) == 1 && res[0].Id == id)
	doc = map[string]any{}
	if len(res[0].Data) > 0 {
		if err := msgpack.Unmarshal(res[0].Data, &doc); err != nil {
			return true, nil, err
		}
	}
	return true, doc, nil
}

func checkDoc(label string, got map[string]any, want vDoc) {
	n := 0
	if want.hasPrice {
		n++
		v, ok := got["price"].(int64)
		vassert(label+"-price", ok && v == want.price)
	}
	if want.hasNote {
		n++
		v, ok := got["note"].(string)
		vassert(label+"-note", ok && v == want.note)
	}
	if want.hasExtra {
		n++
		e, ok := got["extra"].(map[string]any)
		vassert(label+"-extra-is-map", ok)
		if ok {
			ne := 1
			if want.extraJ {
				ne = 2
				j, okj := e["j"].(int64)
				vassert(label+"-extra-j", okj && j == 7)
			}
			if want.extraLit {
				lit, okl := e["k"].(string)
				vassert(label+"-nested-delete-marker-is-stored-as-data", okl && lit == DELETEVALUE)
			} else {
				k, ok2 := e["k"].(int64)
				vassert(label+"-extra-k", ok2 && k == want.extraK)
			}
			vassert(label+"-nested-object-is-replaced-not-merged", len(e) == ne)
		}
	}
	vassert(label+"-no-other-fields", len(got) == n)
}

func priceCount(s *Shard, price int64) int {
	res, err := s.SearchPoints(models.SearchRequest{Query: models.Query{Property: "price", Integer: &models.SearchIntegerOptions{Value: price, Operator: models.OperatorEquals}}, Limit: 10})
	vassert("filter-search-no-error", err == nil)
	return len(res)
}

type vModel struct {
	ids  []uuid.UUID
	docs []vDoc
}

func (m *vModel) find(id uuid.UUID) int {
	for i := range m.ids {
		if m.ids[i] == id {
			return i
		}
	}
	return -1
}

// preState inserts n distinct points through the API (outside the measured step).
func preState(s *Shard, n int) *vModel {
	m := &vModel{}
	for i := 0; i < n; i++ {
		id := nondetUUID()
		vassume(m.find(id) < 0)
		d := drawDoc()
		data := vdoc(d.toMap())
		if !d.hasPrice && !d.hasNote && !d.hasExtra && nondetBool() {
			data = nil // the empty document may also be stored as no bytes at all
		}
		err := s.InsertPoints([]models.Point{{Id: id, Data: data}})
		vassume(err == nil)
		m.ids = append(m.ids, id)
		m.docs = append(m.docs, d)
	}
	return m
}

func checkAgainstModel(s *Shard, m *vModel, probe []uuid.UUID) {
	info, err := s.Info()
	vassert("info-no-error", err == nil)
	vassert("point-count-equals-model", info.PointCount == uint64(len(m.ids)))
	for i, id := range m.ids {
		found, doc, err := readDoc(s, id)
		vassert("stored-point-readable", err == nil && found)
		if found && err == nil {
			checkDoc("stored-doc", doc, m.docs[i])
		}
	}
	for _, id := range probe {
		if m.find(id) < 0 {
			found, _, err := readDoc(s, id)
			vassert("absent-point-not-readable", err == nil && !found)
		}
	}
}

func VerifInsertBatch() {
	s, _ := verifShard(verifSchema())
	m := preState(s, nondetIntRange(0, vparam("PRE", 1)))
	nb := nondetIntRange(0, vparam("B", 2))
	batch := make([]models.Point, nb)
	ids := make([]uuid.UUID, nb)
	docs := make([]vDoc, nb)
	reject := false
	for i := range batch {
		ids[i] = nondetUUID()
		docs[i] = drawDoc()
		batch[i] = models.Point{Id: ids[i], Data: vdoc(docs[i].toMap())}
		if m.find(ids[i]) >= 0 {
			reject = true
		}
		for j := 0; j < i; j++ {
			if ids[j] == ids[i] {
				reject = true
			}
		}
	}
	err := s.InsertPoints(batch)
	vcover("reached")
	vassert("insert-rejected-iff-repeated-or-existing-id", (err != nil) == reject)
	if err == nil {
		for i := range ids {
			m.ids = append(m.ids, ids[i])
			m.docs = append(m.docs, docs[i])
		}
	}
	checkAgainstModel(s, m, ids)
}

type vUpd struct {
	priceOp, noteOp, extraOp int // 0 absent, 1 set, 2 "_delete"; extraOp 3: nested object holding the marker
	price, extraK            int64
	note                     string
}

func drawUpd() vUpd {
	u := vUpd{priceOp: nondetIntRange(0, 2), noteOp: nondetIntRange(0, 2)}
	if vparam("RICH", 0) == 1 || vparam("NESTED", 1) == 1 {
		u.extraOp = nondetIntRange(0, 3)
	}
	if u.priceOp == 1 {
		u.price = nondetInt64()
	}
	if u.noteOp == 1 {
		u.note = "green"
	}
	if u.extraOp == 1 {
		u.extraK = nondetInt64()
	}
	return u
}

func (u vUpd) toMap() map[string]any {
	m := map[string]any{}
	switch u.priceOp {
	case 1:
		m["price"] = u.price
	case 2:
		m["price"] = DELETEVALUE
	}
	switch u.noteOp {
	case 1:
		m["note"] = u.note
	case 2:
		m["note"] = DELETEVALUE
	}
	switch u.extraOp {
	case 1:
		m["extra"] = map[string]any{"k": u.extraK}
	case 2:
		m["extra"] = DELETEVALUE
	case 3:
		m["extra"] = map[string]any{"k": DELETEVALUE}
	}
	return m
}

func (u vUpd) apply(d vDoc) vDoc {
	switch u.priceOp {
	case 1:
		d.hasPrice, d.price = true, u.price
	case 2:
		d.hasPrice, d.price = false, 0
	}
	switch u.noteOp {
	case 1:
		d.hasNote, d.note = true, u.note
	case 2:
		d.hasNote, d.note = false, ""
	}
	switch u.extraOp {
	case 1:
		d.hasExtra, d.extraK, d.extraJ, d.extraLit = true, u.extraK, false, false
	case 2:
		d.hasExtra, d.extraK, d.extraJ, d.extraLit = false, 0, false, false
	case 3:
		d.hasExtra, d.extraK, d.extraJ, d.extraLit = true, 0, false, true
	}
	return d
}

func VerifUpdateBatch() {
	s, _ := verifShard(verifSchema())
	m := preState(s, nondetIntRange(0, vparam("PRE", 1)))
	nb := nondetIntRange(0, vparam("B", 1))
	batch := make([]models.Point, nb)
	ids := make([]uuid.UUID, nb)
	wantUpdated := []uuid.UUID{}
	oldPrices := []int64{}
	for i := range batch {
		ids[i] = nondetUUID()
		for j := 0; j < i; j++ {
			vassume(ids[i] != ids[j]) // ids are unique within a request (API)
		}
		u := drawUpd()
		batch[i] = models.Point{Id: ids[i], Data: vdoc(u.toMap())}
		if k := m.find(ids[i]); k >= 0 {
			if m.docs[k].hasPrice {
				oldPrices = append(oldPrices, m.docs[k].price)
			}
			m.docs[k] = u.apply(m.docs[k])
			wantUpdated = append(wantUpdated, ids[i])
		}
	}
	updated, err := s.UpdatePoints(batch)
	vcover("reached")
	vassert("update-no-error", err == nil)
	vassert("updated-count", len(updated) == len(wantUpdated))
	for _, id := range wantUpdated {
		seen := false
		for _, u := range updated {
			if u == id {
				seen = true
			}
		}
		vassert("updated-ids-are-the-requested-ids-that-existed", seen)
	}
	checkAgainstModel(s, m, ids)
	// the integer index follows the documents (no stale postings)
	for _, p := range oldPrices {
		want := 0
		for _, d := range m.docs {
			if d.hasPrice && d.price == p {
				want++
			}
		}
		vassert("no-stale-posting-for-old-value", priceCount(s, p) == want)
	}
}

func VerifDeleteBatch() {
	s, _ := verifShard(verifSchema())
	m := preState(s, nondetIntRange(0, vparam("PRE", 2)))
	nb := nondetIntRange(0, vparam("B", 2))
	del := map[uuid.UUID]struct{}{}
	ids := []uuid.UUID{}
	wantDeleted := 0
	for i := 0; i < nb; i++ {
		id := nondetUUID()
		if _, dup := del[id]; dup {
			continue
		}
		del[id] = struct{}{}
		ids = append(ids, id)
		if k := m.find(id); k >= 0 {
			wantDeleted++
			m.ids = append(m.ids[:k], m.ids[k+1:]...)
			m.docs = append(m.docs[:k], m.docs[k+1:]...)
		}
	}
	deleted, err := s.DeletePoints(del)
	vcover("reached")
	vassert("delete-no-error", err == nil)
	vassert("deleted-count", len(deleted) == wantDeleted)
	for _, d := range deleted {
		_, asked := del[d]
		vassert("deleted-ids-were-requested", asked)
		vassert("deleted-ids-no-longer-in-model", m.find(d) < 0)
	}
	checkAgainstModel(s, m, ids)
}

// history: insert, delete, insert again (node ids are reused) - documents never mix up
func VerifInsertDeleteReinsert() {
	s, _ := verifShard(verifSchema())
	m := preState(s, 2)
	// delete one of them
	k := nondetIntRange(0, 1)
	gone := m.ids[k]
	deleted, err := s.DeletePoints(map[uuid.UUID]struct{}{gone: {}})
	vassert("delete-ok", err == nil && len(deleted) == 1 && deleted[0] == gone)
	m.ids = append(m.ids[:k], m.ids[k+1:]...)
	m.docs = append(m.docs[:k], m.docs[k+1:]...)
	// insert a batch of two: a fresh id or the previously deleted id, and another fresh one
	a := nondetUUID()
	b := nondetUUID()
	vassume(a != b && m.find(a) < 0 && m.find(b) < 0)
	da, db := drawDoc(), drawDoc()
	err = s.InsertPoints([]models.Point{{Id: a, Data: vdoc(da.toMap())}, {Id: b, Data: vdoc(db.toMap())}})
	vcover("reached")
	vassert("reinsert-ok", err == nil)
	m.ids = append(m.ids, a, b)
	m.docs = append(m.docs, da, db)
	checkAgainstModel(s, m, []uuid.UUID{gone})
	// one more insert after a batch that mixed a reused and a new node id
	c := nondetUUID()
	vassume(m.find(c) < 0)
	dc := drawDoc()
	err = s.InsertPoints([]models.Point{{Id: c, Data: vdoc(dc.toMap())}})
	vassert("insert-after-mixed-batch-ok", err == nil)
	m.ids = append(m.ids, c)
	m.docs = append(m.docs, dc)
	checkAgainstModel(s, m, nil)
}

// VerifMultiIdRead: a read by several ids (_id, stringArray containsAny) returns exactly the
// requested ids that are stored, each once and with its stored document, wherever unknown,
// deleted or repeated ids stand in the request.
func VerifMultiIdRead() {
	s, _ := verifShard(verifSchema())
	m := preState(s, nondetIntRange(0, vparam("PRE", 2)))
	if len(m.ids) > 0 && vparam("DEL", 1) == 1 && nondetBool() {
		// one stored point is deleted again before the read (a previously stored id)
		gone := m.ids[0]
		del, err := s.DeletePoints(map[uuid.UUID]struct{}{gone: {}})
		vassume(err == nil && len(del) == 1)
		m.ids, m.docs = m.ids[1:], m.docs[1:]
	}
	k := nondetIntRange(1, vparam("K", 3))
	req := make([]uuid.UUID, k)
	strs := make([]string, k)
	for i := range req {
		req[i] = nondetUUID()
		strs[i] = req[i].String()
	}
	res, err := s.SearchPoints(models.SearchRequest{
		Query:  models.Query{Property: "_id", StringArray: &models.SearchStringArrayOptions{Value: strs, Operator: models.OperatorContainsAny}},
		Select: []string{"*"}, Limit: 10})
	vcover("reached")
	vassert("multi-id-read-no-error", err == nil)
	if err != nil {
		return
	}
	want := 0
	for i, id := range m.ids {
		asked := false
		for _, r := range req {
			if r == id {
				asked = true
			}
		}
		n := 0
		for _, r := range res {
			if r.Id == id {
				n++
				if asked {
					doc := map[string]any{}
					if len(r.Data) > 0 {
						vassert("multi-id-read-document-decodes", msgpack.Unmarshal(r.Data, &doc) == nil)
					}
					checkDoc("multi-id-read-doc", doc, m.docs[i])
				}
			}
		}
		if asked {
			want++
			vassert("requested-stored-id-returned-once", n == 1)
		} else {
			vassert("unrequested-id-not-returned", n == 0)
		}
	}
	vassert("multi-id-read-returns-only-stored-requested-ids", len(res) == want)
}
