package vectorstore

import (
	"math"

	"github.com/semafind/semadb/diskstore"
	"github.com/semafind/semadb/models"
)

// ---- C04(3) / C08(2): a vector store answers the same warm and cold. Points are written
// through Set + Flush; a FRESH store over the same bucket must enumerate exactly the stored
// ids (ForEach), find each of them (Get / Exists) and compute the same distances.

func sameBits(a, b float32) bool { return math.Float32bits(a) == math.Float32bits(b) }

func verifStore(kind int, bucket diskstore.Bucket, dim int) (VectorStore, error) {
	switch kind {
	case 0: // plain, euclidean
		return New(nil, bucket, models.DistanceEuclidean, dim)
	case 1: // hamming: binary quantiser with the fixed 0.5 threshold
		return New(nil, bucket, models.DistanceHamming, dim)
	case 2: // binary quantiser with a learned threshold, not yet fitted (trigger far away)
		return New(&models.Quantizer{Type: models.QuantizerBinary, Binary: &models.BinaryQuantizerParamaters{TriggerThreshold: 1000, DistanceMetric: models.DistanceHamming}}, bucket, models.DistanceEuclidean, dim)
	case 3: // binary quantiser with a fixed threshold over a float metric
		th := float32(0.5)
		return New(&models.Quantizer{Type: models.QuantizerBinary, Binary: &models.BinaryQuantizerParamaters{Threshold: &th, DistanceMetric: models.DistanceJaccard}}, bucket, models.DistanceEuclidean, dim)
	case 5: // binary quantiser with a learned threshold that is fitted as soon as two points exist
		return New(&models.Quantizer{Type: models.QuantizerBinary, Binary: &models.BinaryQuantizerParamaters{TriggerThreshold: 2, DistanceMetric: models.DistanceHamming}}, bucket, models.DistanceEuclidean, dim)
	default: // product quantiser, not yet fitted
		return New(&models.Quantizer{Type: models.QuantizerProduct, Product: &models.ProductQuantizerParameters{NumCentroids: 2, NumSubVectors: 2, TriggerThreshold: 1000}}, bucket, models.DistanceEuclidean, dim)
	}
}

func VerifVectorStoreWarmCold() {
	kind := vparam("KIND", 0)
	dim := 2
	bucket := diskstore.NewMemBucket(false)
	warm, err := verifStore(kind, bucket, dim)
	vassert("store-created", err == nil && warm != nil)
	if err != nil {
		return
	}
	n := nondetIntRange(0, vparam("PTS", 2))
	live := [3]bool{}
	vecs := [3][]float32{}
	for i := 1; i <= n; i++ {
		v := []float32{nondetFloat32(), nondetFloat32()}
		vassume(v[0] == v[0] && v[1] == v[1])
		_, err := warm.Set(uint64(i), v)
		vassert("set-ok", err == nil)
		live[i], vecs[i] = true, v
	}
	vassert("fit-ok", warm.Fit() == nil)
	vassert("flush-ok", warm.Flush() == nil)
	// a second write transaction on the warm store: delete or overwrite one point
	if n > 0 && nondetBool() {
		k := nondetIntRange(1, n)
		if nondetBool() {
			vassert("delete-ok", warm.Delete(uint64(k)) == nil)
			live[k] = false
		} else {
			v := []float32{nondetFloat32(), nondetFloat32()}
			vassume(v[0] == v[0] && v[1] == v[1])
			_, err := warm.Set(uint64(k), v)
			vassert("overwrite-ok", err == nil)
			vecs[k] = v
		}
		vassert("second-flush-ok", warm.Fit() == nil && warm.Flush() == nil)
	}
	vcover("reached")
	cold, err := verifStore(kind, bucket, dim)
	vassert("cold-store-created", err == nil && cold != nil)
	if err != nil {
		return
	}
	q := []float32{nondetFloat32(), nondetFloat32()}
	vassume(q[0] == q[0] && q[1] == q[1])
	for _, st := range []struct {
		name string
		s    VectorStore
	}{{"warm", warm}, {"cold", cold}} {
		seen := [3]int{}
		distFn := st.s.DistanceFromFloat(q)
		var dists [3]float32
		err := st.s.ForEach(func(p VectorStorePoint) error {
			id := p.Id()
			vassert(st.name+"-foreach-id-in-range", id >= 1 && id <= 2)
			if id >= 1 && id <= 2 {
				seen[id]++
				dists[id] = distFn(p)
			}
			return nil
		})
		vassert(st.name+"-foreach-ok", err == nil)
		for i := 1; i <= 2; i++ {
			if live[i] {
				vassert(st.name+"-every-stored-point-enumerated-once", seen[i] == 1)
				vassert(st.name+"-stored-point-exists", st.s.Exists(uint64(i)))
			} else {
				vassert(st.name+"-deleted-or-absent-point-not-enumerated", seen[i] == 0)
				vassert(st.name+"-deleted-or-absent-point-does-not-exist", !st.s.Exists(uint64(i)))
			}
		}
		if st.name == "cold" {
			wfn := warm.DistanceFromFloat(q)
			for i := 1; i <= 2; i++ {
				if live[i] && seen[i] == 1 {
					wp, err := warm.Get(uint64(i))
					vassert("warm-get-ok", err == nil)
					if err == nil {
						vassert("cold-distance-equals-warm-distance", sameBits(dists[i], wfn(wp)))
					}
				}
			}
		}
	}
}

// C20(2)/C04(2): the binary quantiser sets bit i of word i/64 iff v[i] > threshold[i], padding bits stay zero
func VerifBinaryEncode() {
	lens := []int{1, 2, 63, 64, 65, 128, 129}
	n := lens[nondetIntRange(0, len(lens)-1)]
	th := float32(0.5)
	bq := &binaryQuantizer{threshold: make([]float32, n)}
	for i := range bq.threshold {
		bq.threshold[i] = th
	}
	// all elements are concrete "below threshold" except K symbolic positions
	vec := make([]float32, n)
	for i := range vec {
		vec[i] = float32(math.Inf(-1))
	}
	k := nondetIntRange(0, vparam("K", 2))
	pos := make([]int, k)
	for j := range pos {
		cands := []int{0, 1, 62, 63, 64, 65, 127, 128, n - 1}
		pos[j] = cands[nondetIntRange(0, len(cands)-1)]
		vassume(pos[j] < n)
		vec[pos[j]] = nondetFloat32()
		vassume(vec[pos[j]] == vec[pos[j]])
		// the threshold of that dimension is arbitrary as well (learned thresholds differ per dimension, may be negative)
		bq.threshold[pos[j]] = nondetFloat32()
		vassume(bq.threshold[pos[j]] == bq.threshold[pos[j]])
	}
	enc := bq.encode(vec)
	vcover("reached")
	words := n / 64
	if n%64 != 0 {
		words++
	}
	vassert("word-count", len(enc) == words)
	for w := range enc {
		var want uint64
		for b := 0; b < 64; b++ {
			i := w*64 + b
			if i < n && vec[i] > bq.threshold[i] {
				want |= 1 << uint(b)
			}
		}
		vassert("bit-i-set-iff-above-threshold-and-padding-zero", enc[w] == want)
	}
}

// Items decoded from storage must not alias the storage buffer: bbolt hands out slices of
// its memory map that are recycled by later transactions, while decoded items live on in the
// shared cache.
func VerifDecodedItemsDoNotAliasStorage() {
	bucket := diskstore.NewMemBucket(false)
	id := nondetUint64()
	kind := nondetIntRange(0, 2)
	v0, v1 := nondetFloat32(), nondetFloat32()
	v := []float32{v0, v1} // note: the in-memory bucket keeps a raw view of this slice; compare with v0, v1
	code := []uint8{nondetByte(), nondetByte()}
	words := []uint64{nondetUint64()}
	var keys [][]byte
	flip := func() {
		bucket.ForEach(func(k, val []byte) error {
			keys = append(keys, k)
			for i := range val {
				val[i] ^= 0xff
			}
			return nil
		})
	}
	vcover("reached")
	switch kind {
	case 0:
		vassert("write-ok", plainPoint{id: id, Vector: v}.WriteTo(id, bucket) == nil)
		p, err := plainPoint{}.ReadFrom(id, bucket)
		vassert("read-ok", err == nil && len(p.Vector) == 2)
		flip()
		vassert("plain-vector-survives-buffer-reuse", len(p.Vector) == 2 && sameBits(p.Vector[0], v0) && sameBits(p.Vector[1], v1))
	case 1:
		w := &binaryQuantizedPoint{id: id, BinaryVector: words}
		vassert("write-ok", w.WriteTo(id, bucket) == nil)
		p, err := (&binaryQuantizedPoint{}).ReadFrom(id, bucket)
		vassert("read-ok", err == nil && len(p.BinaryVector) == 1)
		flip()
		vassert("binary-code-survives-buffer-reuse", len(p.BinaryVector) == 1 && p.BinaryVector[0] == words[0])
	case 2:
		w := &productQuantizedPoint{id: id, Vector: v, CentroidIds: append([]uint8{}, code...)}
		vassert("write-ok", w.WriteTo(id, bucket) == nil)
		p, err := (&productQuantizedPoint{}).ReadFrom(id, bucket)
		vassert("read-ok", err == nil && len(p.CentroidIds) == 2)
		flip()
		vassert("product-code-survives-buffer-reuse", len(p.CentroidIds) == 2 && p.CentroidIds[0] == code[0] && p.CentroidIds[1] == code[1])
	}
}
