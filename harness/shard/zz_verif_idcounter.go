package shard

import "github.com/semafind/semadb/diskstore"

// ---- C10 / C01: the node id counter. A symbolic sequence of NextId / FreeId of a live id /
// Flush + reload, against a set model: ids handed out are unique among the live ones, never 0 or
// the start node, never at the same time live and on the free list, bounded by MaxId; the persisted
// state reloads to the same counter.
func VerifIdCounterSequence() {
	bucket := diskstore.NewMemBucket(false)
	ic, err := NewIdCounter(bucket, FREENODEIDSKEY, NEXTFREENODEIDKEY)
	vassume(err == nil)
	live := []uint64{}
	steps := vparam("STEPS", 5)
	for s := 0; s < steps; s++ {
		switch nondetIntRange(0, 2) {
		case 0:
			id := ic.NextId()
			vassert("id-is-not-nil-or-the-start-node", id >= 2)
			vassert("id-within-max-id", id <= ic.MaxId())
			for _, l := range live {
				vassert("id-handed-out-is-not-live-already", l != id)
			}
			live = append(live, id)
		case 1:
			if len(live) == 0 {
				continue
			}
			k := nondetIntRange(0, len(live)-1)
			ic.FreeId(live[k])
			live = append(live[:k], live[k+1:]...)
		case 2: // end of a write batch: flush; the next batch builds a fresh counter from storage
			vassert("flush-ok", ic.Flush() == nil)
			ic2, err := NewIdCounter(bucket, FREENODEIDSKEY, NEXTFREENODEIDKEY)
			vassert("reload-ok", err == nil)
			vassert("reloaded-max-id", ic2.MaxId() == ic.MaxId())
			vassert("reloaded-free-list-size", len(ic2.freeIds) == len(ic.freeIds))
			ic = ic2
		}
		vcover("reached")
		for _, f := range ic.freeIds {
			for _, l := range live {
				vassert("no-id-is-live-and-on-the-free-list", f != l)
			}
			vassert("free-ids-within-max-id", f >= 2 && f <= ic.MaxId())
		}
		for i := range ic.freeIds {
			for j := 0; j < i; j++ {
				vassert("free-list-has-no-duplicates", ic.freeIds[i] != ic.freeIds[j])
			}
		}
		for _, l := range live {
			vassert("live-ids-within-max-id", l <= ic.MaxId())
		}
		// every id up to MaxId is either live or free (no id is lost)
		vassert("no-id-is-lost", uint64(len(live)+len(ic.freeIds)) == ic.MaxId()-1)
	}
}
