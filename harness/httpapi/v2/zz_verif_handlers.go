package v2

import (
	"bytes"
	"errors"
	"net/http"

	"github.com/google/uuid"
	"github.com/semafind/semadb/cluster"
	"github.com/semafind/semadb/httpapi/middleware"
	"github.com/semafind/semadb/models"
	"github.com/vmihailenco/msgpack/v5"
)

// ---- C18 / C16: the v2 handlers behind the real middleware chain (AppHeaderMiddleware ->
// CollectionURIMiddleware -> handler), driven by structurally arbitrary requests. The cluster
// layer is cut off (textual renames of the nine sdbh.clusterNode calls in handlers.go): the stub
// records what reaches it. Decided: a request never panics; what violates the schema or the
// limits is answered 4xx and never reaches the cluster layer; what reaches it satisfies the
// limits (vector dimension in particular) and addresses exactly the caller's collection.

type verifClusterStub struct {
	calls       int
	lookups     int
	lookupUser, lookupCol string
	users       []string // user id every call was made for
	cols        []string
	points      []models.Point
	pointIds    []uuid.UUID
	search      *models.SearchRequest
	created     *models.Collection
	fail        int // 0 ok, 1 quota, 2 unavailable, 3 other, 4 exists/not found
	colFail     int // GetCollection: 0 ok, 1 not found, 2 other
	schema      models.IndexSchema
	precondOK   bool // the request got as far as the handler proper
	storedPlan  models.UserPlan
	results     []models.SearchResult
}

var verifCluster *verifClusterStub

var errVerifCluster = errors.New("cluster failure")

func (c *verifClusterStub) note(col models.Collection) {
	c.calls++
	c.users = append(c.users, col.UserId)
	c.cols = append(c.cols, col.Id)
}
func (c *verifClusterStub) err() error {
	c.fail = nondetIntRange(0, 3) // drawn when the cluster layer is reached
	switch c.fail {
	case 1:
		return cluster.ErrQuotaReached
	case 2:
		return cluster.ErrShardUnavailable
	case 3:
		return errVerifCluster
	}
	return nil
}
func (c *verifClusterStub) InsertPoints(col models.Collection, points []models.Point) ([]cluster.FailedRange, error) {
	c.note(col)
	c.points = points
	return nil, c.err()
}
func (c *verifClusterStub) UpdatePoints(col models.Collection, points []models.Point) ([]cluster.FailedPoint, error) {
	c.note(col)
	c.points = points
	return nil, c.err()
}
func (c *verifClusterStub) DeletePoints(col models.Collection, ids []uuid.UUID) ([]cluster.FailedPoint, error) {
	c.note(col)
	c.pointIds = ids
	return nil, c.err()
}
func (c *verifClusterStub) SearchPoints(col models.Collection, req models.SearchRequest) ([]models.SearchResult, error) {
	c.note(col)
	c.search = &req
	return c.results, c.err()
}
func (c *verifClusterStub) GetCollection(userId, colId string) (models.Collection, error) {
	c.lookups++
	c.lookupUser, c.lookupCol = userId, colId
	c.colFail = nondetIntRange(0, 2)
	switch c.colFail {
	case 1:
		return models.Collection{}, cluster.ErrNotFound
	case 2:
		return models.Collection{}, errVerifCluster
	}
	return models.Collection{UserId: userId, Id: colId, IndexSchema: c.schema, UserPlan: c.storedPlan}, nil
}
func (c *verifClusterStub) CreateCollection(col models.Collection) error {
	c.note(col)
	c.created = &col
	if nondetBool() {
		return cluster.ErrExists
	}
	return c.err()
}
func (c *verifClusterStub) ListCollections(userId string) ([]models.Collection, error) {
	c.calls++
	c.users = append(c.users, userId)
	return []models.Collection{{UserId: userId, Id: "abc"}}, c.err()
}
func (c *verifClusterStub) DeleteCollection(col models.Collection) ([]string, error) {
	c.note(col)
	return nil, c.err()
}

type verifWriter struct {
	hdr         http.Header
	status      int
	headerCalls int
}

func (w *verifWriter) Header() http.Header { return w.hdr }
func (w *verifWriter) Write(b []byte) (int, error) {
	if w.status == 0 {
		w.status = 200
	}
	return len(b), nil
}
func (w *verifWriter) WriteHeader(s int) { w.headerCalls++; w.status = s }

type verifBody struct{ *bytes.Reader }

func (verifBody) Close() error { return nil }

// body bytes of a request value: the decoders use the json struct tags
func verifEncode(v any) []byte {
	if vsymbolic() {
		b, _ := msgpack.Marshal(v) // abstract document
		return b
	}
	var buf bytes.Buffer
	enc := msgpack.NewEncoder(&buf)
	enc.SetCustomStructTag("json")
	if err := enc.Encode(v); err != nil {
		panic(err)
	}
	return buf.Bytes()
}

const verifDim = 2

func verifSchema() models.IndexSchema {
	return models.IndexSchema{
		"vec":   {Type: models.IndexTypeVectorVamana, VectorVamana: &models.IndexVectorVamanaParameters{VectorSize: verifDim, DistanceMetric: models.DistanceEuclidean, SearchSize: 75, DegreeBound: 64, Alpha: 1.2}},
		"price": {Type: models.IndexTypeFloat},
	}
}

// serve sends one request through the real chain
func verifServe(handler http.HandlerFunc, body []byte, maxPointSize int) (*verifWriter, string, string) {
	return verifServeH(handler, body, maxPointSize, vparam("HEADERS", 0) == 1)
}

func verifServeH(handler http.HandlerFunc, body []byte, maxPointSize int, varied bool) (*verifWriter, string, string) {
	plans := map[string]models.UserPlan{"basic": {Name: "basic", MaxCollections: 1, MaxCollectionPointCount: 100, MaxPointSize: maxPointSize, ShardBackupFrequency: 0, ShardBackupCount: 0}}
	sdbh := &SemaDBHandlers{}
	user, plan, colId := "alice", "basic", "mycol"
	if varied {
		user = []string{"alice", "bob", "", ".", "%62ob", "alice%2Fprod", "bob "}[nondetIntRange(0, 6)]
		plan = []string{"basic", "gold", ""}[nondetIntRange(0, 2)]
		colId = []string{"mycol", "ab", "othercollection"}[nondetIntRange(0, 2)]
	}
	r := &http.Request{Method: "POST", Header: http.Header{}, Body: verifBody{bytes.NewReader(body)}, ContentLength: int64(len(body))}
	r.Header["Content-Type"] = []string{"application/msgpack"}
	if user != "" {
		r.Header["X-User-Id"] = []string{user}
	}
	if plan != "" {
		r.Header["X-Plan-Id"] = []string{plan}
	}
	r.SetPathValue("collectionId", colId)
	w := &verifWriter{hdr: http.Header{}}
	chain := middleware.AppHeaderMiddleware(plans, sdbh.CollectionURIMiddleware(handler))
	chain.ServeHTTP(w, r) // a panic here is the finding
	vcover("served")
	vassert("exactly-one-status-written", w.headerCalls == 1 && w.status >= 200 && w.status < 600)
	c := verifCluster
	headersOK := user != "" && user != "." && plan == "basic" && len(colId) >= 3
	if !headersOK {
		vassert("request-with-bad-headers-or-collection-id-is-refused-4xx-before-the-cluster-layer", w.status >= 400 && w.status < 500 && c.calls == 0)
	}
	for i := range c.users {
		vassert("every-cluster-call-is-made-for-the-callers-user-id", c.users[i] == user)
	}
	for i := range c.cols {
		vassert("every-cluster-call-addresses-the-collection-of-the-request", c.cols[i] == colId)
	}
	if headersOK {
		vassert("collection-looked-up-once-for-the-callers-user-id-and-the-path-collection", c.lookups == 1 && c.lookupUser == user && c.lookupCol == colId)
		if c.colFail == 1 {
			vassert("unknown-collection-is-answered-404-without-touching-data", w.status == 404 && c.calls == 0)
		}
		if c.colFail == 2 {
			vassert("failed-collection-lookup-is-answered-500-without-touching-data", w.status == 500 && c.calls == 0)
		}
	}
	c.precondOK = headersOK && c.colFail == 0
	return w, user, colId
}

func verifNewCluster() *verifClusterStub {
	c := &verifClusterStub{schema: verifSchema()}
	c.storedPlan = models.UserPlan{Name: "stale", MaxPointSize: 1}
	verifCluster = c
	return c
}

type verifPointShape struct {
	idKind, vecKind, vecLen, priceKind int
	id                                 uuid.UUID
}

func verifDrawPoint() (models.PointAsMap, verifPointShape) {
	m := models.PointAsMap{}
	sh := verifPointShape{idKind: nondetIntRange(0, 3), vecKind: nondetIntRange(0, 3), priceKind: nondetIntRange(0, 2)}
	switch sh.idKind {
	case 0:
		sh.id = nondetUUID()
		m["_id"] = sh.id.String()
	case 1: // no id
	case 2:
		m["_id"] = "not-a-uuid"
	case 3: // present but not a string
		m["_id"] = 7.0
	}
	switch sh.vecKind {
	case 0: // array of numbers, any length
		sh.vecLen = nondetIntRange(0, verifDim+2)
		a := make([]any, sh.vecLen)
		for i := range a {
			a[i] = float64(i) + 0.5
		}
		m["vec"] = a
	case 1:
		m["vec"] = "text"
	case 2: // absent
	case 3:
		m["vec"] = []any{"x", "y"}
	}
	switch sh.priceKind {
	case 0:
		m["price"] = 2.5
	case 1: // absent
	case 2:
		m["price"] = "cheap"
	}
	return m, sh
}

func nondetUUID() uuid.UUID {
	var u uuid.UUID
	for i := range u {
		u[i] = nondetByte()
	}
	return u
}

func (sh verifPointShape) schemaOK() bool {
	return (sh.vecKind == 2 || (sh.vecKind == 0 && sh.vecLen == verifDim)) && sh.priceKind != 2
}

func verifWriteHandler(update bool) {
	c := verifNewCluster()
	np := nondetIntRange(0, vparam("POINTS", 2))
	req := struct {
		Points []models.PointAsMap `json:"points"`
	}{}
	shapes := make([]verifPointShape, np)
	for i := 0; i < np; i++ {
		var m models.PointAsMap
		m, shapes[i] = verifDrawPoint()
		req.Points = append(req.Points, m)
	}
	maxPointSize := []int{0, 1 << 30}[nondetIntRange(0, 1)] // nothing fits / everything fits (encoded sizes are abstract)
	sdbh := &SemaDBHandlers{}
	h := sdbh.HandleInsertPoints
	var body []byte
	if update {
		h = sdbh.HandleUpdatePoints
		body = verifEncode(UpdatePointsRequest{Points: req.Points})
	} else {
		body = verifEncode(InsertPointsRequest{Points: req.Points})
	}
	w, _, _ := verifServe(h, body, maxPointSize)
	vcover("reached")
	allOK := np >= 1
	for _, sh := range shapes {
		idOK := sh.idKind == 0 || (sh.idKind == 1 && !update)
		if !idOK || !sh.schemaOK() {
			allOK = false
		}
	}
	if c.calls > 0 {
		vcover("cluster-reached")
		vassert("only-requests-that-satisfy-schema-and-limits-reach-the-cluster-layer", allOK)
		vassert("all-points-of-the-request-are-passed-on", len(c.points) == np)
		for i, p := range c.points {
			if i < np && shapes[i].idKind == 0 {
				vassert("point-keeps-the-id-given-in-the-request", p.Id == shapes[i].id)
			}
			vassert("point-within-the-active-plans-size-limit", len(p.Data) <= maxPointSize)
		}
		if c.fail == 0 {
			vassert("accepted-request-is-answered-200", w.status == 200)
		}
	} else if c.precondOK {
		vassert("refused-request-is-answered-4xx", w.status >= 400 && w.status < 500)
	}
	if !allOK {
		vassert("invalid-request-never-reaches-the-cluster-layer", c.calls == 0)
	}
	if allOK && c.precondOK && maxPointSize == 1<<30 {
		vassert("valid-request-reaches-the-cluster-layer", c.calls == 1)
	}
}

func VerifHandleInsertPoints() { verifWriteHandler(false) }
func VerifHandleUpdatePoints() { verifWriteHandler(true) }

func VerifHandleSearchPoints() {
	c := verifNewCluster()
	n := nondetIntRange(0, verifDim+2)
	limit, offset := nondetInt(), nondetInt() // any integers
	searchSize, vlimit := nondetInt(), nondetInt()
	q := models.Query{Property: []string{"vec", "price", "missing"}[nondetIntRange(0, 2)]}
	kind := nondetIntRange(0, 2)
	switch kind {
	case 0:
		q.VectorVamana = &models.SearchVectorVamanaOptions{Vector: make([]float32, n), Operator: models.OperatorNear, SearchSize: searchSize, Limit: vlimit}
	case 1:
		q.Float = &models.SearchFloatOptions{Value: 1, Operator: models.OperatorEquals}
	case 2: // no options at all
	}
	req := models.SearchRequest{Query: q, Offset: offset, Limit: limit}
	sdbh := &SemaDBHandlers{}
	w, _, _ := verifServe(sdbh.HandleSearchPoints, verifEncode(req), 1<<30)
	vcover("reached")
	if c.calls > 0 {
		vcover("cluster-reached")
		s := c.search
		vassert("search-reaching-the-cluster-layer-passed-validation", s.Validate() == nil && s.Query.ValidateSchema(verifSchema()) == nil)
		vassert("search-limits-in-documented-range", s.Limit >= 1 && s.Limit <= 100 && s.Offset >= 0)
		if s.Query.VectorVamana != nil {
			vassert("query-vector-has-the-index-dimension", len(s.Query.VectorVamana.Vector) == verifDim && s.Query.Property == "vec")
			vassert("vector-search-options-in-range", s.Query.VectorVamana.SearchSize >= 25 && s.Query.VectorVamana.SearchSize <= 75 && s.Query.VectorVamana.Limit >= 1 && s.Query.VectorVamana.Limit <= 75)
		}
		if c.fail == 0 {
			vassert("accepted-search-is-answered-200", w.status == 200)
		}
	} else if c.precondOK {
		vassert("refused-search-is-answered-4xx", w.status >= 400 && w.status < 500)
	}
}

func VerifHandleDeletePoints() {
	c := verifNewCluster()
	n := nondetIntRange(0, 2)
	ids := make([]string, n)
	good := n >= 1
	want := make([]uuid.UUID, n)
	for i := range ids {
		if nondetBool() {
			want[i] = nondetUUID()
			ids[i] = want[i].String()
		} else {
			ids[i] = "nope"
			good = false
		}
	}
	sdbh := &SemaDBHandlers{}
	w, _, _ := verifServe(sdbh.HandleDeletePoints, verifEncode(DeletePointsRequest{Ids: ids}), 1<<30)
	vcover("reached")
	if c.calls > 0 {
		vcover("cluster-reached")
		vassert("only-valid-id-lists-reach-the-cluster-layer", good && len(c.pointIds) == n)
		for i := range c.pointIds {
			if i < n {
				vassert("ids-passed-on-unchanged", c.pointIds[i] == want[i])
			}
		}
	} else if c.precondOK {
		vassert("refused-delete-is-answered-4xx", w.status >= 400 && w.status < 500)
	}
	if !good {
		vassert("invalid-delete-never-reaches-the-cluster-layer", c.calls == 0)
	}
}

// C18 / C16: POST /collections. Only a request with a well-formed id and a schema that passes
// validation reaches the cluster layer, as a collection of the caller with the caller's active
// plan; the outcomes of the cluster layer map to 200 / 403 / 409 / 500.
func VerifHandleCreateCollection() {
	c := verifNewCluster()
	id := []string{"abc", "ab", "mycollection1", "has space", "UPPER", "averyveryverylongcollectionname1"}[nondetIntRange(0, 5)]
	idOK := id == "abc" || id == "mycollection1"
	schema := models.IndexSchema{}
	schemaOK := true
	switch nondetIntRange(0, 3) {
	case 0:
		schema["price"] = models.IndexSchemaValue{Type: models.IndexTypeInteger}
	case 1:
		schema["vec"] = models.IndexSchemaValue{Type: models.IndexTypeVectorVamana, VectorVamana: &models.IndexVectorVamanaParameters{VectorSize: 2, DistanceMetric: models.DistanceEuclidean, SearchSize: 75, DegreeBound: 64, Alpha: 1.2}}
	case 2: // parameters missing
		schema["vec"] = models.IndexSchemaValue{Type: models.IndexTypeVectorVamana}
		schemaOK = false
	case 3: // unknown index type
		schema["x"] = models.IndexSchemaValue{Type: "nosuchindex"}
		schemaOK = false
	}
	sdbh := &SemaDBHandlers{}
	plans := map[string]models.UserPlan{"basic": {Name: "basic", MaxCollections: 1, MaxCollectionPointCount: 100, MaxPointSize: 100}}
	body := verifEncode(CreateCollectionRequest{Id: id, IndexSchema: schema})
	r := &http.Request{Method: "POST", Header: http.Header{}, Body: verifBody{bytes.NewReader(body)}, ContentLength: int64(len(body))}
	r.Header["Content-Type"] = []string{"application/msgpack"}
	r.Header["X-User-Id"] = []string{"alice"}
	r.Header["X-Plan-Id"] = []string{"basic"}
	w := &verifWriter{hdr: http.Header{}}
	middleware.AppHeaderMiddleware(plans, http.HandlerFunc(sdbh.HandleCreateCollection)).ServeHTTP(w, r)
	vcover("reached")
	vassert("exactly-one-status-written", w.headerCalls == 1)
	if c.calls > 0 {
		vcover("cluster-reached")
		vassert("only-well-formed-collections-reach-the-cluster-layer", idOK && schemaOK)
		col := c.created
		vassert("collection-is-created-for-the-caller-with-the-active-plan", col != nil && col.UserId == "alice" && col.Id == id && col.UserPlan.Name == "basic")
		vassert("schema-passed-validation", col != nil && col.IndexSchema.Validate() == nil)
		vassert("cluster-outcome-is-mapped-to-a-status", w.status == 200 || w.status == 403 || w.status == 409 || w.status == 500)
	} else {
		vassert("refused-create-is-answered-4xx", w.status >= 400 && w.status < 500)
	}
	if !idOK || !schemaOK {
		vassert("malformed-create-never-reaches-the-cluster-layer", c.calls == 0)
	} else {
		vassert("well-formed-create-reaches-the-cluster-layer", c.calls == 1)
	}
}

// C16 / C18: GET /collections and DELETE /collections/{id} for varied headers: the listing is made
// for exactly the caller's user id, the deletion addresses exactly the caller's collection of that
// name, and the answers map the cluster outcome (200 / 202 when not every shard was deleted / 500).
func VerifHandleListAndDeleteCollection() {
	c := verifNewCluster()
	sdbh := &SemaDBHandlers{}
	if nondetBool() {
		w, user, _ := verifServeH(sdbh.HandleDeleteCollection, nil, 1<<30, true)
		vcover("reached")
		if c.calls > 0 {
			vcover("cluster-reached")
			vassert("delete-addresses-the-callers-collection", len(c.users) == 1 && c.users[0] == user)
			if c.fail == 0 {
				vassert("delete-is-answered-200-or-202", w.status == 200 || w.status == 202)
			} else {
				vassert("failed-delete-is-answered-500", w.status == 500)
			}
		}
		return
	}
	plans := map[string]models.UserPlan{"basic": {Name: "basic", MaxCollections: 1, MaxCollectionPointCount: 100, MaxPointSize: 100}}
	user := []string{"alice", "bob", "", "."}[nondetIntRange(0, 3)]
	r := &http.Request{Method: "GET", Header: http.Header{}}
	if user != "" {
		r.Header["X-User-Id"] = []string{user}
	}
	r.Header["X-Plan-Id"] = []string{"basic"}
	w := &verifWriter{hdr: http.Header{}}
	middleware.AppHeaderMiddleware(plans, http.HandlerFunc(sdbh.HandleListCollections)).ServeHTTP(w, r)
	vcover("reached")
	vassert("exactly-one-status-written", w.headerCalls == 1)
	if user == "" || user == "." {
		vassert("listing-without-a-valid-user-id-is-refused-before-the-cluster-layer", w.status >= 400 && w.status < 500 && c.calls == 0)
		return
	}
	vassert("listing-is-made-once-for-exactly-the-callers-user-id", c.calls == 1 && len(c.users) == 1 && c.users[0] == user)
	if c.fail == 0 {
		vassert("listing-is-answered-200", w.status == 200)
	} else {
		vassert("failed-listing-is-answered-500", w.status == 500)
	}
}
