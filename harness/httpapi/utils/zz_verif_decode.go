package utils

import (
	"errors"
	"io"
	"net/http"
)

// ---- C18: DecodeValid, the decoding layer every handler starts with. The request is
// arbitrary: content type, declared content length (including -1: unknown, chunked), body of
// arbitrary bytes. The decoders themselves are environment models (they fail or leave arbitrary
// values in the target); natively the real decoders run.

type verifPayload struct {
	N int     `json:"n"`
	F float32 `json:"f"`
	S string  `json:"s"`
}

func (p verifPayload) Validate() error {
	if p.N < 0 || p.N > 100 {
		return errors.New("n out of range")
	}
	if len(p.S) > 1 {
		return errors.New("s too long")
	}
	return nil
}

type verifBodyReader struct {
	data []byte
	pos  int
}

func (r *verifBodyReader) Read(p []byte) (int, error) {
	if r.pos >= len(r.data) {
		return 0, io.EOF
	}
	n := copy(p, r.data[r.pos:])
	r.pos += n
	return n, nil
}
func (r *verifBodyReader) Close() error { return nil }

func VerifDecodeValid() {
	ctypes := []string{"application/json", "application/msgpack", "text/plain", ""}
	ct := ctypes[nondetIntRange(0, 3)]
	nbody := nondetIntRange(0, vparam("BODY", 3))
	body := make([]byte, nbody)
	for i := range body {
		body[i] = nondetByte()
	}
	r := &http.Request{Header: http.Header{}, Body: &verifBodyReader{data: body}}
	if ct != "" {
		r.Header["Content-Type"] = []string{ct}
	}
	// declared length: unknown (-1, chunked transfer), or any small number, whatever the body holds
	r.ContentLength = int64(nondetIntRange(-1, vparam("BODY", 3)+1))
	v, err := DecodeValid[verifPayload](r) // a panic here is the finding
	vcover("reached")
	if ct != "application/json" && ct != "application/msgpack" {
		vassert("unsupported-content-type-is-refused", err != nil)
	}
	if err == nil {
		vcover("accepted")
		vassert("accepted-request-passed-validation", v.Validate() == nil)
	}
}
