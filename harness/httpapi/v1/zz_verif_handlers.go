package v1

import (
	"bytes"
	"errors"
	"net/http"

	"github.com/google/uuid"
	"github.com/semafind/semadb/cluster"
	"github.com/semafind/semadb/httpapi/middleware"
	"github.com/semafind/semadb/models"
	"github.com/vmihailenco/msgpack/v5"
)

// ---- C18 / C16: the v1 handlers behind the real middleware chain (AppHeaderMiddleware ->
// CollectionURIMiddleware -> handler), driven by structurally arbitrary requests. The cluster
// layer is cut off (textual renames of the nine sdbh.clusterNode calls in handlers.go): the stub
// records what reaches it. Decided: a request never panics; what violates the schema or the
// limits is answered 4xx and never reaches the cluster layer; what reaches it satisfies the
// limits (vector dimension in particular) and addresses exactly the caller's collection.

type verifClusterStub struct {
	calls       int
	lookups     int
	lookupUser, lookupCol string
	users       []string // user id every call was made for
	cols        []string
	points      []models.Point
	pointIds    []uuid.UUID
	search      *models.SearchRequest
	created     *models.Collection
	fail        int // 0 ok, 1 quota, 2 unavailable, 3 other, 4 exists/not found
	colFail     int // GetCollection: 0 ok, 1 not found, 2 other
	schema      models.IndexSchema
	precondOK   bool // the request got as far as the handler proper
	storedPlan  models.UserPlan
	results     []models.SearchResult
}

var verifCluster *verifClusterStub

var errVerifCluster = errors.New("cluster failure")

func (c *verifClusterStub) note(col models.Collection) {
	c.calls++
	c.users = append(c.users, col.UserId)
	c.cols = append(c.cols, col.Id)
}
func (c *verifClusterStub) err() error {
	c.fail = nondetIntRange(0, 3) // drawn when the cluster layer is reached
	switch c.fail {
	case 1:
		return cluster.ErrQuotaReached
	case 2:
		return cluster.ErrShardUnavailable
	case 3:
		return errVerifCluster
	}
	return nil
}
func (c *verifClusterStub) InsertPoints(col models.Collection, points []models.Point) ([]cluster.FailedRange, error) {
	c.note(col)
	c.points = points
	return nil, c.err()
}
func (c *verifClusterStub) UpdatePoints(col models.Collection, points []models.Point) ([]cluster.FailedPoint, error) {
	c.note(col)
	c.points = points
	return nil, c.err()
}
func (c *verifClusterStub) DeletePoints(col models.Collection, ids []uuid.UUID) ([]cluster.FailedPoint, error) {
	c.note(col)
	c.pointIds = ids
	return nil, c.err()
}
func (c *verifClusterStub) SearchPoints(col models.Collection, req models.SearchRequest) ([]models.SearchResult, error) {
	c.note(col)
	c.search = &req
	return c.results, c.err()
}
func (c *verifClusterStub) GetCollection(userId, colId string) (models.Collection, error) {
	c.lookups++
	c.lookupUser, c.lookupCol = userId, colId
	c.colFail = nondetIntRange(0, 2)
	switch c.colFail {
	case 1:
		return models.Collection{}, cluster.ErrNotFound
	case 2:
		return models.Collection{}, errVerifCluster
	}
	return models.Collection{UserId: userId, Id: colId, IndexSchema: c.schema, UserPlan: c.storedPlan}, nil
}
func (c *verifClusterStub) CreateCollection(col models.Collection) error {
	c.note(col)
	c.created = &col
	if nondetBool() {
		return cluster.ErrExists
	}
	return c.err()
}
func (c *verifClusterStub) ListCollections(userId string) ([]models.Collection, error) {
	c.calls++
	c.users = append(c.users, userId)
	// the user's collections: one made through v1 and one of the chosen kind
	cols := []models.Collection{{UserId: userId, Id: "abc", IndexSchema: c.schema}}
	verifSchemaKind = 0
	cols = append(cols, models.Collection{UserId: userId, Id: "first", IndexSchema: verifSchema()})
	return cols, c.err()
}
func (c *verifClusterStub) DeleteCollection(col models.Collection) ([]string, error) {
	c.note(col)
	return nil, c.err()
}

type verifWriter struct {
	hdr         http.Header
	status      int
	headerCalls int
}

func (w *verifWriter) Header() http.Header { return w.hdr }
func (w *verifWriter) Write(b []byte) (int, error) {
	if w.status == 0 {
		w.status = 200
	}
	return len(b), nil
}
func (w *verifWriter) WriteHeader(s int) { w.headerCalls++; w.status = s }

type verifBody struct{ *bytes.Reader }

func (verifBody) Close() error { return nil }

// body bytes of a request value: the decoders use the json struct tags
func verifEncode(v any) []byte {
	if vsymbolic() {
		b, _ := msgpack.Marshal(v) // abstract document
		return b
	}
	var buf bytes.Buffer
	enc := msgpack.NewEncoder(&buf)
	enc.SetCustomStructTag("json")
	if err := enc.Encode(v); err != nil {
		panic(err)
	}
	return buf.Bytes()
}

const verifDim = 2

// the caller's collection was created through v1 (one vamana property "vector") or through v2
// (any valid schema: here without a property "vector", or with "vector" indexed differently)
var verifSchemaKind int

func verifSchema() models.IndexSchema {
	vam := &models.IndexVectorVamanaParameters{VectorSize: verifDim, DistanceMetric: models.DistanceEuclidean, SearchSize: 75, DegreeBound: 64, Alpha: 1.2}
	switch verifSchemaKind {
	case 1:
		return models.IndexSchema{"embedding": {Type: models.IndexTypeVectorVamana, VectorVamana: vam}}
	case 2:
		return models.IndexSchema{"vector": {Type: models.IndexTypeVectorFlat, VectorFlat: &models.IndexVectorFlatParameters{VectorSize: verifDim, DistanceMetric: models.DistanceEuclidean}}}
	case 3: // "vector" indexed flat with another dimension, plus a stray vamana block (schema validation accepts extra blocks)
		return models.IndexSchema{"vector": {Type: models.IndexTypeVectorFlat, VectorFlat: &models.IndexVectorFlatParameters{VectorSize: verifDim + 1, DistanceMetric: models.DistanceEuclidean}, VectorVamana: vam}}
	}
	return models.IndexSchema{"vector": {Type: models.IndexTypeVectorVamana, VectorVamana: vam}}
}

// serve sends one request through the real chain
func verifServe(handler http.HandlerFunc, body []byte, maxPointSize int) (*verifWriter, string, string) {
	return verifServeH(handler, body, maxPointSize, vparam("HEADERS", 0) == 1)
}

func verifServeH(handler http.HandlerFunc, body []byte, maxPointSize int, varied bool) (*verifWriter, string, string) {
	plans := map[string]models.UserPlan{"basic": {Name: "basic", MaxCollections: 1, MaxCollectionPointCount: 100, MaxPointSize: maxPointSize, ShardBackupFrequency: 0, ShardBackupCount: 0}}
	sdbh := &SemaDBHandlers{}
	user, plan, colId := "alice", "basic", "mycol"
	if varied {
		user = []string{"alice", "bob", "", ".", "%62ob", "alice%2Fprod", "bob "}[nondetIntRange(0, 6)]
		plan = []string{"basic", "gold", ""}[nondetIntRange(0, 2)]
		colId = []string{"mycol", "ab", "averyveryverylongcollectionname"}[nondetIntRange(0, 2)]
	}
	r := &http.Request{Method: "POST", Header: http.Header{}, Body: verifBody{bytes.NewReader(body)}, ContentLength: int64(len(body))}
	r.Header["Content-Type"] = []string{"application/msgpack"}
	if user != "" {
		r.Header["X-User-Id"] = []string{user}
	}
	if plan != "" {
		r.Header["X-Plan-Id"] = []string{plan}
	}
	r.SetPathValue("collectionId", colId)
	w := &verifWriter{hdr: http.Header{}}
	chain := middleware.AppHeaderMiddleware(plans, sdbh.CollectionURIMiddleware(handler))
	chain.ServeHTTP(w, r) // a panic here is the finding
	vcover("served")
	vassert("exactly-one-status-written", w.headerCalls == 1 && w.status >= 200 && w.status < 600)
	c := verifCluster
	headersOK := user != "" && user != "." && plan == "basic" && len(colId) >= 3 && len(colId) <= 16
	if !headersOK {
		vassert("request-with-bad-headers-or-collection-id-is-refused-4xx-before-the-cluster-layer", w.status >= 400 && w.status < 500 && c.calls == 0)
	}
	for i := range c.users {
		vassert("every-cluster-call-is-made-for-the-callers-user-id", c.users[i] == user)
	}
	for i := range c.cols {
		vassert("every-cluster-call-addresses-the-collection-of-the-request", c.cols[i] == colId)
	}
	if headersOK {
		vassert("collection-looked-up-once-for-the-callers-user-id-and-the-path-collection", c.lookups == 1 && c.lookupUser == user && c.lookupCol == colId)
		if c.colFail == 1 {
			vassert("unknown-collection-is-answered-404-without-touching-data", w.status == 404 && c.calls == 0)
		}
		if c.colFail == 2 {
			vassert("failed-collection-lookup-is-answered-500-without-touching-data", w.status == 500 && c.calls == 0)
		}
	}
	c.precondOK = headersOK && c.colFail == 0
	return w, user, colId
}

func verifNewCluster() *verifClusterStub {
	verifSchemaKind = nondetIntRange(0, vparam("SCHEMAS", 3))
	c := &verifClusterStub{schema: verifSchema()}
	c.storedPlan = models.UserPlan{Name: "stale", MaxPointSize: 1}
	verifCluster = c
	return c
}


func nondetUUID() uuid.UUID {
	var u uuid.UUID
	for i := range u {
		u[i] = nondetByte()
	}
	return u
}

type verifV1Shape struct {
	idKind, vecLen int
	id             uuid.UUID
}

func verifWriteHandler(update bool) {
	c := verifNewCluster()
	np := nondetIntRange(0, vparam("POINTS", 2))
	shapes := make([]verifV1Shape, np)
	ins := InsertPointsRequest{}
	upd := UpdatePointsRequest{}
	for i := 0; i < np; i++ {
		sh := verifV1Shape{idKind: nondetIntRange(0, 2), vecLen: nondetIntRange(0, verifDim+2)}
		id := ""
		switch sh.idKind {
		case 0:
			sh.id = nondetUUID()
			id = sh.id.String()
		case 2:
			id = "not-a-uuid"
		}
		vec := make([]float32, sh.vecLen)
		for j := range vec {
			vec[j] = float32(j) + 0.5
		}
		var meta any
		if nondetBool() {
			meta = "note"
		}
		ins.Points = append(ins.Points, InsertSinglePointRequest{Id: id, Vector: vec, Metadata: meta})
		upd.Points = append(upd.Points, UpdateSinglePointRequest{Id: id, Vector: vec, Metadata: meta})
		shapes[i] = sh
	}
	maxPointSize := []int{0, 1 << 30}[nondetIntRange(0, 1)] // nothing fits / everything fits (encoded sizes are abstract)
	sdbh := &SemaDBHandlers{}
	h := sdbh.HandleInsertPoints
	var body []byte
	if update {
		h = sdbh.HandleUpdatePoints
		body = verifEncode(upd)
	} else {
		body = verifEncode(ins)
	}
	w, _, _ := verifServe(h, body, maxPointSize)
	vcover("reached")
	allOK := np >= 1
	for _, sh := range shapes {
		idOK := sh.idKind == 0 || (sh.idKind == 1 && !update)
		if !idOK || sh.vecLen != verifDim {
			allOK = false
		}
	}
	if verifSchemaKind != 0 {
		vcover("collection-of-another-api-version")
		vassert("collection-without-a-v1-vector-index-is-refused-not-a-server-error", w.status < 500 || !c.precondOK)
		vassert("collection-without-a-v1-vector-index-is-never-written-through-v1", c.calls == 0)
		return
	}
	if c.calls > 0 {
		vcover("cluster-reached")
		vassert("only-requests-that-satisfy-schema-and-limits-reach-the-cluster-layer", allOK)
		vassert("all-points-of-the-request-are-passed-on", len(c.points) == np)
		for i, p := range c.points {
			if i < np && shapes[i].idKind == 0 {
				vassert("point-keeps-the-id-given-in-the-request", p.Id == shapes[i].id)
			}
			vassert("point-within-the-active-plans-size-limit", len(p.Data) <= maxPointSize)
		}
		if c.fail == 0 {
			vassert("accepted-request-is-answered-200", w.status == 200)
		}
	} else if c.precondOK {
		vassert("refused-request-is-answered-4xx", w.status >= 400 && w.status < 500)
	}
	if !allOK {
		vassert("invalid-request-never-reaches-the-cluster-layer", c.calls == 0)
	}
	if allOK && c.precondOK && maxPointSize == 1<<30 {
		vassert("valid-request-reaches-the-cluster-layer", c.calls == 1)
	}
}

func VerifHandleInsertPoints() { verifWriteHandler(false) }
func VerifHandleUpdatePoints() { verifWriteHandler(true) }

func VerifHandleSearchPoints() {
	c := verifNewCluster()
	n := nondetIntRange(0, verifDim+2)
	limit := nondetInt()
	req := SearchPointsRequest{Vector: make([]float32, n), Limit: limit}
	sdbh := &SemaDBHandlers{}
	w, _, _ := verifServe(sdbh.HandleSearchPoints, verifEncode(req), 1<<30)
	vcover("reached")
	if verifSchemaKind != 0 {
		vcover("collection-of-another-api-version")
		vassert("collection-without-a-v1-vector-index-is-refused-not-a-server-error", w.status < 500 || !c.precondOK)
		return
	}
	if c.calls > 0 {
		vcover("cluster-reached")
		s := c.search
		vassert("search-reaching-the-cluster-layer-passed-validation", s.Validate() == nil && s.Query.ValidateSchema(verifSchema()) == nil)
		vassert("query-vector-has-the-index-dimension", s.Query.VectorVamana != nil && len(s.Query.VectorVamana.Vector) == verifDim)
		vassert("search-limits-in-documented-range", s.Limit >= 1 && s.Limit <= 75 && s.Query.VectorVamana.Limit == s.Limit)
		if c.fail == 0 {
			vassert("accepted-search-is-answered-200", w.status == 200)
		}
	} else if c.precondOK {
		vassert("refused-search-is-answered-4xx", w.status >= 400 && w.status < 500)
	}
	if c.precondOK && n == verifDim && limit >= 0 && limit <= 75 {
		vassert("valid-search-reaches-the-cluster-layer", c.calls == 1)
	}
}

func VerifHandleGetCollection() {
	c := verifNewCluster()
	sdbh := &SemaDBHandlers{clusterNode: &cluster.ClusterNode{}}
	w, _, _ := verifServe(sdbh.HandleGetCollection, nil, 1<<30)
	vcover("reached")
	if c.precondOK {
		vassert("get-collection-is-answered-without-a-server-error", w.status < 500)
	}
}

func VerifHandleListCollections() {
	c := verifNewCluster()
	kind := verifSchemaKind
	if err := c.schema.Validate(); err != nil {
		vassume(false) // only schemas collection creation accepts
	}
	sdbh := &SemaDBHandlers{}
	plans := map[string]models.UserPlan{"basic": {Name: "basic", MaxCollections: 2, MaxCollectionPointCount: 100, MaxPointSize: 100}}
	r := &http.Request{Method: "GET", Header: http.Header{}}
	r.Header["X-User-Id"] = []string{"alice"}
	r.Header["X-Plan-Id"] = []string{"basic"}
	w := &verifWriter{hdr: http.Header{}}
	middleware.AppHeaderMiddleware(plans, http.HandlerFunc(sdbh.HandleListCollections)).ServeHTTP(w, r)
	vcover("reached")
	_ = kind
	vassert("exactly-one-status-written", w.headerCalls == 1)
	if c.fail == 0 {
		vassert("listing-is-answered-200-whatever-api-version-made-the-collections", w.status == 200)
	}
	for _, u := range c.users {
		vassert("listing-is-made-for-the-callers-user-id", u == "alice")
	}
}

// C18: v1 POST /collections with any vector size (full width), five ids and five metric names.
func VerifHandleCreateCollection() {
	c := verifNewCluster()
	id := []string{"abc", "ab", "Mixed1", "bad id", "seventeencharsxxx"}[nondetIntRange(0, 4)]
	idOK := id == "abc" || id == "Mixed1"
	size := uint(nondetInt64())
	metric := []string{"euclidean", "cosine", "dot", "hamming", ""}[nondetIntRange(0, 4)]
	metricOK := metric == "euclidean" || metric == "cosine" || metric == "dot"
	sdbh := &SemaDBHandlers{}
	plans := map[string]models.UserPlan{"basic": {Name: "basic", MaxCollections: 1, MaxCollectionPointCount: 100, MaxPointSize: 100}}
	body := verifEncode(CreateCollectionRequest{Id: id, VectorSize: size, DistanceMetric: metric})
	r := &http.Request{Method: "POST", Header: http.Header{}, Body: verifBody{bytes.NewReader(body)}, ContentLength: int64(len(body))}
	r.Header["Content-Type"] = []string{"application/msgpack"}
	r.Header["X-User-Id"] = []string{"alice"}
	r.Header["X-Plan-Id"] = []string{"basic"}
	w := &verifWriter{hdr: http.Header{}}
	middleware.AppHeaderMiddleware(plans, http.HandlerFunc(sdbh.HandleCreateCollection)).ServeHTTP(w, r)
	vcover("reached")
	vassert("exactly-one-status-written", w.headerCalls == 1)
	ok := idOK && metricOK && size >= 1 && size <= 4096
	if c.calls > 0 {
		vcover("cluster-reached")
		vassert("only-well-formed-collections-reach-the-cluster-layer", ok)
		col := c.created
		vassert("collection-is-created-for-the-caller-with-the-active-plan", col != nil && col.UserId == "alice" && col.Id == id && col.UserPlan.Name == "basic")
		if col != nil {
			v, has := col.IndexSchema["vector"]
			vassert("v1-collection-has-the-vamana-vector-index-of-the-requested-size", has && v.Type == models.IndexTypeVectorVamana && v.VectorVamana != nil && v.VectorVamana.VectorSize == size && v.VectorVamana.DistanceMetric == metric)
			vassert("schema-passes-validation", col.IndexSchema.Validate() == nil)
		}
	} else {
		vassert("refused-create-is-answered-4xx", w.status >= 400 && w.status < 500)
	}
	if !ok {
		vassert("malformed-create-never-reaches-the-cluster-layer", c.calls == 0)
	} else {
		vassert("well-formed-create-reaches-the-cluster-layer", c.calls == 1)
	}
}
