package middleware

import "net/http"

// ---- C18: the outermost middleware turns a panic of anything below it into a 500 answer;
// nothing escapes to the connection goroutine.

type verifRecWriter struct {
	hdr    http.Header
	status int
}

func (w *verifRecWriter) Header() http.Header         { return w.hdr }
func (w *verifRecWriter) Write(b []byte) (int, error) { return len(b), nil }
func (w *verifRecWriter) WriteHeader(s int)           { w.status = s }

type verifNode struct{ next *verifNode }

func VerifRecoverMiddleware() {
	kind := nondetIntRange(0, 3)
	inner := http.HandlerFunc(func(w http.ResponseWriter, r *http.Request) {
		switch kind {
		case 1:
			panic("handler bug")
		case 2:
			var n *verifNode
			_ = n.next.next // nil pointer dereference
		case 3:
			a := make([]int, 1)
			i := nondetIntRange(1, 2)
			a[i] = 1 // index out of range
		}
		w.WriteHeader(200)
	})
	w := &verifRecWriter{hdr: http.Header{}}
	escaped := true
	func() {
		defer func() {
			if recover() != nil {
				vassert("no-panic-escapes-the-recover-middleware", false)
			}
		}()
		Recover(inner).ServeHTTP(w, &http.Request{Header: http.Header{}})
		escaped = false
	}()
	vcover("reached")
	vassert("handler-panic-is-answered-500", escaped || (kind == 0) == (w.status == 200))
	if kind != 0 {
		vassert("handler-panic-is-answered-500-status", w.status == 500)
	}
}
