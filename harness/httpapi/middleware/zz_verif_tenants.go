package middleware

import (
	"path/filepath"
	"strings"
)

// ---- C16: the directory namespace. userCollections/<user>/<collection>/<shard> of two
// distinct accepted user ids never coincide and neither lies inside the other's user
// directory, for all delimiter-free ids and all collection names the API accepts.

func drawId(maxLen int) string {
	s := nondetString(nondetIntRange(1, maxLen))
	for i := 0; i < len(s); i++ {
		vassume(s[i] != '/' && s[i] != 0)
	}
	return s
}

func drawCollectionName(maxLen int) string {
	s := nondetString(nondetIntRange(1, maxLen))
	for i := 0; i < len(s); i++ {
		c := s[i]
		vassume((c >= 'a' && c <= 'z') || (c >= 'A' && c <= 'Z') || (c >= '0' && c <= '9'))
	}
	return s
}

func VerifTenantDirectories() {
	a, b := drawId(vparam("ID", 2)), drawId(vparam("ID", 2))
	vassume(a != b)
	if vparam("SKIPVALID", 0) == 0 {
		vassume(validUserId(a) && validUserId(b)) // what AppHeaderMiddleware lets through
	}
	colA := drawCollectionName(vparam("COL", 2))
	root := "/data"
	userDirA := filepath.Join(root, "userCollections", a)
	userDirB := filepath.Join(root, "userCollections", b)
	colDirA := filepath.Join(root, "userCollections", a, colA)
	shardA := filepath.Join(colDirA, "s", "sharddb.bbolt")
	vcover("reached")
	vassert("user-directories-differ", userDirA != userDirB)
	vassert("collection-directory-is-inside-its-own-user-directory", strings.HasPrefix(colDirA, userDirA+"/"))
	vassert("collection-directory-is-not-another-users-directory", colDirA != userDirB)
	vassert("collection-directory-is-not-inside-another-users-directory", !strings.HasPrefix(colDirA+"/", userDirB+"/"))
	vassert("another-users-directory-is-not-inside-the-collection-directory", !strings.HasPrefix(userDirB+"/", colDirA+"/"))
	vassert("shard-file-stays-under-the-data-directory", strings.HasPrefix(shardA, root+"/userCollections/"))
}
