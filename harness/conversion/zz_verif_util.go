package conversion

import "math"

func f32bits(f float32) uint32 { return math.Float32bits(f) }
