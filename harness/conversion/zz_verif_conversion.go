package conversion

import "bytes"

// C19: node keys
func VerifNodeKey() {
	id1, id2 := nondetUint64(), nondetUint64()
	s1, s2 := nondetByte(), nondetByte()
	k1 := NodeKey(id1, s1)
	k2 := NodeKey(id2, s2)
	vcover("reached")
	vassert("len10", len(k1) == 10)
	back, ok := NodeIdFromKey(k1, s1)
	vassert("roundtrip", ok && back == id1)
	vassert("injective", bytes.Equal(k1, k2) == (id1 == id2 && s1 == s2))
	// a key is only accepted under its own suffix
	_, ok2 := NodeIdFromKey(k1, s2)
	vassert("suffix-checked", ok2 == (s1 == s2))
	vobserve("k1", uint64(k1[1]))
	vobserve("k9", uint64(k1[9]))
}

// arbitrary byte strings as keys: accepted iff 10 bytes, 'n' prefix, right suffix; and then re-encoding gives the same key
func VerifNodeIdFromKeyArbitrary() {
	n := nondetIntRange(0, 12)
	key := nondetBytes(n)
	suffix := nondetByte()
	id, ok := NodeIdFromKey(key, suffix)
	vcover("reached")
	wellFormed := n == 10 && key[0] == 'n' && key[9] == suffix
	vassert("accept-iff-wellformed", ok == wellFormed)
	if ok {
		vassert("reencode", bytes.Equal(NodeKey(id, suffix), key))
	}
	vobserve("ok", b2u(ok))
}

func b2u(b bool) uint64 {
	if b {
		return 1
	}
	return 0
}

func VerifUint64Bytes() {
	a, b := nondetUint64(), nondetUint64()
	ka, kb := Uint64ToBytes(a), Uint64ToBytes(b)
	vcover("reached")
	vassert("len8", len(ka) == 8)
	vassert("roundtrip", BytesToUint64(ka) == a)
	vassert("injective", bytes.Equal(ka, kb) == (a == b))
	vobserve("k0", uint64(ka[0]))
}

func VerifSingleFloat32() {
	f := nondetFloat32()
	b := SingleFloat32ToBytes(f)
	vcover("reached")
	vassert("len4", len(b) == 4)
	back := BytesToSingleFloat32(b)
	vassert("roundtrip-bits", f32bits(back) == f32bits(f))
	vobserve("b0", uint64(b[0]))
}

func VerifEdgeList() {
	n := nondetIntRange(0, vparam("N", 4))
	edges := make([]uint64, n)
	for i := range edges {
		edges[i] = nondetUint64()
	}
	b := EdgeListToBytes(edges)
	vcover("reached")
	vassert("len", len(b) == 8*n)
	back := BytesToEdgeList(b)
	vassert("len-back", len(back) == n)
	for i := range edges {
		vassert("roundtrip", back[i] == edges[i])
	}
	vobserve("len", uint64(len(b)))
}

// float32 vectors: every bit pattern (NaN payloads included), safe and raw variants,
// raw == safe, and the decoded vector does not alias the encoded bytes.
func VerifFloat32Vector() {
	n := nondetIntRange(1, vparam("N", 4))
	f := make([]float32, n)
	for i := range f {
		f[i] = nondetFloat32()
	}
	safe := float32ToBytesSafe(f)
	raw := float32ToBytesRaw(f)
	vcover("reached")
	vassert("len-safe", len(safe) == 4*n)
	vassert("raw-equals-safe", bytes.Equal(safe, raw))
	bs := bytesToFloat32Safe(safe)
	br := bytesToFloat32Raw(safe)
	vassert("len-back", len(bs) == n && len(br) == n)
	for i := range f {
		vassert("roundtrip-safe", f32bits(bs[i]) == f32bits(f[i]))
		vassert("roundtrip-raw", f32bits(br[i]) == f32bits(f[i]))
	}
	// the decoded vector must survive the encoded buffer being overwritten
	// (buffers come from a storage transaction and are recycled)
	for i := range safe {
		safe[i] ^= 0xff
	}
	for i := range f {
		vassert("decoded-safe-does-not-alias-buffer", f32bits(bs[i]) == f32bits(f[i]))
		vassert("decoded-raw-does-not-alias-buffer", f32bits(br[i]) == f32bits(f[i]))
	}
	// the package-level function variables are what the rest of the code uses
	viaVar := BytesToFloat32(Float32ToBytes(f))
	vassert("len-via-var", len(viaVar) == n)
	for i := range f {
		vassert("roundtrip-via-var", f32bits(viaVar[i]) == f32bits(f[i]))
	}
	vobserve("s0", uint64(raw[0]))
}
