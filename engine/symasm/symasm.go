// Package symasm symbolically executes the small AVX2 kernels of distance/asm (Plan 9
// assembly text, parsed from /repo on every run). General-purpose registers are
// (base symbol, concrete offset) pairs or concrete integers, vector registers are 8
// lanes of SMT-LIB integer terms over the input elements. With the length n fixed per
// run, control flow is concrete; the run yields (a) every memory operand as an offset
// from its slice base, checked against [0, 4n), and (b) the returned lane as a term,
// which the solver compares with the definition (IEEE operations read as exact
// arithmetic; inputs range over the integer grid [-2,2], which determines polynomials
// of degree <= 4 per variable).
package symasm

import (
	"fmt"
	"os"
	"regexp"
	"strconv"
	"strings"
)

type Instr struct {
	Op   string
	Args []string
	Line int
}

type Program struct {
	Instrs []Instr
	Labels map[string]int
	Name   string
}

var textRe = regexp.MustCompile(`^TEXT\s+·(\w+)\(SB\)`)

func Parse(path, fn string) (*Program, error) {
	b, err := os.ReadFile(path)
	if err != nil {
		return nil, err
	}
	p := &Program{Labels: map[string]int{}, Name: fn}
	in := false
	for ln, raw := range strings.Split(string(b), "\n") {
		line := raw
		if i := strings.Index(line, "//"); i >= 0 {
			line = line[:i]
		}
		line = strings.TrimSpace(line)
		if line == "" || strings.HasPrefix(line, "#") {
			continue
		}
		if m := textRe.FindStringSubmatch(line); m != nil {
			in = m[1] == fn
			continue
		}
		if !in {
			continue
		}
		if strings.HasSuffix(line, ":") {
			p.Labels[strings.TrimSuffix(line, ":")] = len(p.Instrs)
			continue
		}
		f := strings.Fields(line)
		op := f[0]
		rest := strings.TrimSpace(line[len(op):])
		var args []string
		if rest != "" {
			for _, a := range strings.Split(rest, ",") {
				args = append(args, strings.TrimSpace(a))
			}
		}
		p.Instrs = append(p.Instrs, Instr{Op: op, Args: args, Line: ln + 1})
	}
	if len(p.Instrs) == 0 {
		return nil, fmt.Errorf("function %s not found in %s", fn, path)
	}
	return p, nil
}

type gpr struct {
	base string // "" = plain integer
	off  int64
}

type MemAccess struct {
	Base  string
	Off   int64
	Width int64
	Line  int
}

type Result struct {
	Ret      string // SMT term of the returned float (lane 0)
	Accesses []MemAccess
	Steps    int
	Err      string
}

type machine struct {
	gp   map[string]gpr
	vec  map[string][8]string // Y registers; X registers are the low 4 lanes
	n    int64
	acc  []MemAccess
	zf   bool // last CMPQ: equal
	lt   bool // last CMPQ: less (signed)
	ret  string
	elem func(base string, idx int64) string
}

var memRe = regexp.MustCompile(`^(-?\d*)\((\w+)\)$`)
var fpRe = regexp.MustCompile(`^(\w+)\+(\d+)\(FP\)$`)

func zero8() [8]string { return [8]string{"0", "0", "0", "0", "0", "0", "0", "0"} }

func (m *machine) vreg(name string) ([8]string, int, error) {
	if len(name) < 2 || (name[0] != 'X' && name[0] != 'Y') {
		return zero8(), 0, fmt.Errorf("not a vector register: %s", name)
	}
	w := 8
	if name[0] == 'X' {
		w = 4
	}
	v, ok := m.vec["Y"+name[1:]]
	if !ok {
		return zero8(), w, fmt.Errorf("read of uninitialised vector register %s", name)
	}
	return v, w, nil
}

func (m *machine) setv(name string, v [8]string) { m.vec["Y"+name[1:]] = v }

// loadMem returns w consecutive float32 elements addressed by the operand.
func (m *machine) loadMem(op string, w int, line int) ([]string, error) {
	mm := memRe.FindStringSubmatch(op)
	if mm == nil {
		return nil, fmt.Errorf("unsupported memory operand %q", op)
	}
	var disp int64
	if mm[1] != "" {
		d, err := strconv.ParseInt(mm[1], 10, 64)
		if err != nil {
			return nil, err
		}
		disp = d
	}
	r, ok := m.gp[mm[2]]
	if !ok || r.base == "" {
		return nil, fmt.Errorf("memory operand through non-pointer register %s", mm[2])
	}
	off := r.off + disp
	m.acc = append(m.acc, MemAccess{Base: r.base, Off: off, Width: int64(4 * w), Line: line})
	out := make([]string, w)
	for i := 0; i < w; i++ {
		if off%4 != 0 {
			return nil, fmt.Errorf("misaligned element offset %d", off)
		}
		idx := off/4 + int64(i)
		if idx < 0 || idx >= m.n {
			out[i] = fmt.Sprintf("oob_%s_%d", r.base, idx) // flagged by the bounds check; keep a placeholder
		} else {
			out[i] = m.elem(r.base, idx)
		}
	}
	return out, nil
}

func imm(s string) (int64, bool) {
	if !strings.HasPrefix(s, "$") {
		return 0, false
	}
	v, err := strconv.ParseInt(strings.TrimPrefix(s, "$"), 0, 64)
	return v, err == nil
}

func add(a, b string) string {
	if a == "0" {
		return b
	}
	if b == "0" {
		return a
	}
	return "(+ " + a + " " + b + ")"
}
func sub(a, b string) string {
	if b == "0" {
		return a
	}
	return "(- " + a + " " + b + ")"
}
func mul(a, b string) string {
	if a == "0" || b == "0" {
		return "0"
	}
	return "(* " + a + " " + b + ")"
}

// Run executes the kernel for slice length n. x and y have the same length n (the
// caller-side invariant established by request validation, C18).
func Run(p *Program, n int64, elem func(base string, idx int64) string) *Result {
	m := &machine{gp: map[string]gpr{}, vec: map[string][8]string{}, n: n, elem: elem}
	res := &Result{}
	pc := 0
	for steps := 0; ; steps++ {
		if steps > 200000 {
			res.Err = "step limit"
			return res
		}
		if pc >= len(p.Instrs) {
			res.Err = "fell off the end of the function"
			return res
		}
		in := p.Instrs[pc]
		a := in.Args
		fail := func(format string, args ...any) *Result {
			res.Err = fmt.Sprintf("line %d %s: ", in.Line, in.Op) + fmt.Sprintf(format, args...)
			return res
		}
		switch in.Op {
		case "MOVQ":
			if fm := fpRe.FindStringSubmatch(a[0]); fm != nil {
				switch {
				case strings.HasSuffix(fm[1], "_base"):
					m.gp[a[1]] = gpr{base: strings.TrimSuffix(fm[1], "_base")}
				case strings.HasSuffix(fm[1], "_len"):
					m.gp[a[1]] = gpr{off: n}
				default:
					return fail("unsupported frame operand %s", a[0])
				}
			} else {
				return fail("unsupported operands %v", a)
			}
		case "VXORPS":
			if a[0] == a[1] {
				m.setv(a[2], zero8())
			} else {
				return fail("xor of different registers")
			}
		case "CMPQ":
			r, ok := m.gp[a[0]]
			v, ok2 := imm(a[1])
			if !ok || !ok2 || r.base != "" {
				return fail("unsupported compare %v", a)
			}
			m.zf, m.lt = r.off == v, r.off < v
		case "JL":
			if m.lt {
				pc = p.Labels[a[0]]
				continue
			}
		case "JE":
			if m.zf {
				pc = p.Labels[a[0]]
				continue
			}
		case "JMP":
			t, ok := p.Labels[a[0]]
			if !ok {
				return fail("unknown label")
			}
			pc = t
			continue
		case "ADDQ", "SUBQ":
			v, ok := imm(a[0])
			r, ok2 := m.gp[a[1]]
			if !ok || !ok2 {
				return fail("unsupported operands %v", a)
			}
			if in.Op == "SUBQ" {
				v = -v
			}
			r.off += v
			m.gp[a[1]] = r
		case "DECQ":
			r := m.gp[a[0]]
			r.off--
			m.gp[a[0]] = r
		case "VMOVUPS":
			_, w, err := m.vreg(strings.Replace(a[1], a[1], a[1], 1))
			if err != nil && !strings.Contains(err.Error(), "uninitialised") {
				return fail("%v", err)
			}
			el, err := m.loadMem(a[0], w, in.Line)
			if err != nil {
				return fail("%v", err)
			}
			v := zero8()
			copy(v[:], el)
			m.setv(a[1], v)
		case "VMOVSS":
			el, err := m.loadMem(a[0], 1, in.Line)
			if err != nil {
				return fail("%v", err)
			}
			v := zero8()
			v[0] = el[0]
			m.setv(a[1], v)
		case "VFMADD231PS", "VFMADD231SS":
			// Go operand order: src3(mem/reg), src2, dst  ->  dst = src2*src3 + dst
			dst, w, err := m.vreg(a[2])
			if err != nil {
				return fail("%v", err)
			}
			s2, _, err := m.vreg(a[1])
			if err != nil {
				return fail("%v", err)
			}
			lanes := w
			if in.Op == "VFMADD231SS" {
				lanes = 1
			}
			var s3 []string
			if memRe.MatchString(a[0]) {
				s3, err = m.loadMem(a[0], lanes, in.Line)
				if err != nil {
					return fail("%v", err)
				}
			} else {
				r, _, err := m.vreg(a[0])
				if err != nil {
					return fail("%v", err)
				}
				s3 = r[:lanes]
			}
			for i := 0; i < lanes; i++ {
				dst[i] = add(mul(s2[i], s3[i]), dst[i])
			}
			if w == 4 {
				for i := 4; i < 8; i++ {
					dst[i] = "0" // VEX.128 zeroes the upper half
				}
			}
			m.setv(a[2], dst)
		case "VSUBPS", "VSUBSS", "VADDPS":
			// Go operand order: src2, src1, dst -> dst = src1 (op) src2
			s1, w, err := m.vreg(a[1])
			if err != nil {
				return fail("%v", err)
			}
			lanes := w
			if in.Op == "VSUBSS" {
				lanes = 1
			}
			var s2 []string
			if memRe.MatchString(a[0]) {
				s2, err = m.loadMem(a[0], lanes, in.Line)
				if err != nil {
					return fail("%v", err)
				}
			} else {
				r, _, err := m.vreg(a[0])
				if err != nil {
					return fail("%v", err)
				}
				s2 = r[:lanes]
			}
			out := zero8()
			for i := 0; i < w; i++ {
				out[i] = s1[i]
			}
			for i := 0; i < lanes; i++ {
				if in.Op == "VADDPS" {
					out[i] = add(s1[i], s2[i])
				} else {
					out[i] = sub(s1[i], s2[i])
				}
			}
			m.setv(a[2], out)
		case "VEXTRACTF128":
			v, ok := imm(a[0])
			src, _, err := m.vreg(a[1])
			if !ok || err != nil || (v != 0 && v != 1) {
				return fail("unsupported operands %v", a)
			}
			out := zero8()
			for i := 0; i < 4; i++ {
				out[i] = src[int(v)*4+i]
			}
			m.setv(a[2], out)
		case "VHADDPS":
			s2, w, err := m.vreg(a[0])
			if err != nil || w != 4 {
				return fail("only the 128-bit form is supported")
			}
			s1, _, err := m.vreg(a[1])
			if err != nil {
				return fail("%v", err)
			}
			out := zero8()
			out[0], out[1] = add(s1[0], s1[1]), add(s1[2], s1[3])
			out[2], out[3] = add(s2[0], s2[1]), add(s2[2], s2[3])
			m.setv(a[2], out)
		case "MOVSS":
			src, _, err := m.vreg(a[0])
			if err != nil || !strings.HasPrefix(a[1], "ret+") {
				return fail("unsupported operands %v", a)
			}
			m.ret = src[0]
		case "RET":
			res.Ret = m.ret
			res.Accesses = m.acc
			res.Steps = steps
			if m.ret == "" {
				res.Err = "RET without a stored result"
			}
			return res
		default:
			return fail("unsupported instruction")
		}
		pc++
	}
}
