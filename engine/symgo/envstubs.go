package symgo

import (
	"fmt"
	"go/types"
	"sort"
	"strings"

	"golang.org/x/tools/go/ssa"
)

// ---- environment models used by the shard-manager obligations (C12): timers as events that
// fire at any later scheduling point, an abstract file system of directories, and shard
// handles with an open flag.

type timerObj struct {
	ch     *ChanObj
	active bool
	fired  int
}

type fsObj struct {
	dirs map[string]bool
}

func (in *Interp) fsState() *fsObj {
	if in.fs == nil {
		in.fs = &fsObj{dirs: map[string]bool{"/": true}}
	}
	return in.fs
}

func structField(t types.Type, name string) int {
	st := t.Underlying().(*types.Struct)
	for i := 0; i < st.NumFields(); i++ {
		if st.Field(i).Name() == name {
			return i
		}
	}
	return -1
}

func (in *Interp) notExistErr() Value {
	if in.errNotExist == nil {
		in.errNotExist = in.newErrorString("file does not exist")
	}
	return in.errNotExist
}

func (in *Interp) installEnvStubs() {
	S := in.stubs
	// ---- timers
	S["time.NewTimer"] = func(in *Interp, fn *ssa.Function, a []Value) Value {
		p := in.prog.ImportedPackage("time")
		if p == nil || p.Type("Timer") == nil {
			in.abort("unsupported", "time.Timer type not found")
		}
		tt := p.Type("Timer").Type()
		l := newLoc(zero(tt))
		tm := &timerObj{ch: &ChanObj{cap: 1}, active: true}
		l.sub[structField(tt, "C")].set(ChanV{tm.ch})
		in.timers[l] = tm
		// the environment: fires the timer at any scheduling point while it is active
		in.spawnDaemon(func() {
			for {
				in.blockUntil(func() bool { return tm.active })
				in.schedule(true)
				if tm.active {
					tm.active = false
					tm.fired++
					if len(tm.ch.buf) < tm.ch.cap {
						in.chanOp([]offer{{ch: tm.ch, send: true, val: zero(tt.Underlying().(*types.Struct).Field(structField(tt, "C")).Type().Underlying().(*types.Chan).Elem())}}, false)
					}
				}
			}
		})
		in.envThreads++
		return PtrV{loc: l}
	}
	S["(*time.Timer).Stop"] = func(in *Interp, fn *ssa.Function, a []Value) Value {
		tm := in.timers[a[0].(PtrV).loc]
		if tm == nil {
			in.abort("unsupported", "Stop on unknown timer")
		}
		in.schedule(true)
		was := tm.active
		tm.active = false
		return Bool(was)
	}
	S["(*time.Timer).Reset"] = func(in *Interp, fn *ssa.Function, a []Value) Value {
		tm := in.timers[a[0].(PtrV).loc]
		if tm == nil {
			in.abort("unsupported", "Reset on unknown timer")
		}
		was := tm.active
		tm.active = true
		in.schedule(true)
		return Bool(was)
	}
	// ---- abstract file system (directories only)
	concretePath := func(in *Interp, v Value) string {
		s, ok := v.(StrV).concrete()
		if !ok {
			in.abort("unsupported", "file system path with symbolic bytes")
		}
		return s
	}
	S["os.MkdirAll"] = func(in *Interp, fn *ssa.Function, a []Value) Value {
		p := concretePath(in, a[0])
		fs := in.fsState()
		for p != "" && p != "/" {
			fs.dirs[p] = true
			i := strings.LastIndex(p, "/")
			if i <= 0 {
				break
			}
			p = p[:i]
		}
		return IfaceV{}
	}
	S["os.Stat"] = func(in *Interp, fn *ssa.Function, a []Value) Value {
		p := concretePath(in, a[0])
		if in.fsState().dirs[p] {
			return TupleV{[]Value{IfaceV{}, IfaceV{}}}
		}
		return TupleV{[]Value{IfaceV{}, in.notExistErr()}}
	}
	S["os.IsNotExist"] = func(in *Interp, fn *ssa.Function, a []Value) Value {
		e, ok := a[0].(IfaceV)
		if !ok || e.t == nil {
			return Bool(false)
		}
		return in.valEq(e, in.notExistErr())
	}
	S["os.ReadDir"] = func(in *Interp, fn *ssa.Function, a []Value) Value {
		p := concretePath(in, a[0])
		fs := in.fsState()
		if !fs.dirs[p] {
			return TupleV{[]Value{SliceV{isNil: true}, in.notExistErr()}}
		}
		if in.HarnessPkg == nil || in.HarnessPkg.Type("verifDirEntry") == nil {
			in.abort("unsupported", "os.ReadDir needs a harness type verifDirEntry{name string}")
		}
		et := in.HarnessPkg.Type("verifDirEntry").Type()
		var names []string
		for d := range fs.dirs {
			if strings.HasPrefix(d, p+"/") && !strings.Contains(d[len(p)+1:], "/") {
				names = append(names, d[len(p)+1:])
			}
		}
		sort.Strings(names)
		arr := make([]*Loc, len(names))
		for i, n := range names {
			arr[i] = &Loc{v: IfaceV{t: et, v: StructV{[]Value{strConst(n)}}}}
		}
		return TupleV{[]Value{SliceV{arr: arr, n: len(arr), cp: len(arr)}, IfaceV{}}}
	}
	rm := func(all bool) func(in *Interp, fn *ssa.Function, a []Value) Value {
		return func(in *Interp, fn *ssa.Function, a []Value) Value {
			p := concretePath(in, a[0])
			fs := in.fsState()
			if _, isFile := in.files[p]; isFile {
				delete(in.files, p)
				in.fsRemoved = append(in.fsRemoved, p)
				return IfaceV{}
			}
			if !fs.dirs[p] {
				if all {
					return IfaceV{}
				}
				return in.notExistErr()
			}
			hasChild := false
			for d := range fs.dirs {
				if strings.HasPrefix(d, p+"/") {
					hasChild = true
				}
			}
			for f := range in.files {
				if strings.HasPrefix(f, p+"/") {
					hasChild = true
				}
			}
			if hasChild && !all {
				return in.newErrorString("remove " + p + ": directory not empty")
			}
			in.fsRemoved = append(in.fsRemoved, p)
			for d := range fs.dirs {
				if d == p || strings.HasPrefix(d, p+"/") {
					delete(fs.dirs, d)
				}
			}
			for f := range in.files {
				if strings.HasPrefix(f, p+"/") {
					delete(in.files, f)
				}
			}
			return IfaceV{}
		}
	}
	S["os.RemoveAll"] = rm(true)
	S["os.Remove"] = rm(false)
	// ---- shard handles
	const sh = "github.com/semafind/semadb/shard"
	S[sh+".NewShard"] = func(in *Interp, fn *ssa.Function, a []Value) Value {
		path := concretePath(in, a[0])
		for _, h := range in.shardHandles {
			if h.path == path && h.open {
				in.finding("assert", "shard-opened-twice-at-the-same-time", nil)
			}
		}
		l := &Loc{v: BVu(8, 0)}
		in.shardHandles[l] = &shardHandle{path: path, open: true}
		in.schedule(true)
		return TupleV{[]Value{PtrV{loc: l}, IfaceV{}}}
	}
	S["(*"+sh+".Shard).Close"] = func(in *Interp, fn *ssa.Function, a []Value) Value {
		h := in.shardHandles[a[0].(PtrV).loc]
		if h == nil {
			in.abort("panic", "Close on nil shard")
		}
		in.schedule(true)
		if h.users > 0 {
			in.finding("assert", "shard-closed-while-a-request-is-using-it", nil)
		}
		h.open = false
		return IfaceV{}
	}
	S["(*"+sh+".Shard).Backup"] = func(in *Interp, fn *ssa.Function, a []Value) Value {
		in.schedule(true)
		return IfaceV{}
	}
	// a request working on the shard: the handle must be open when it starts and stay open
	// until it is done (Close checks the users); the work itself is a scheduling point
	use := func(in *Interp, fn *ssa.Function, a []Value) Value {
		p, ok := a[0].(PtrV)
		if !ok || p.loc == nil {
			in.abort("panic", "request on a nil shard")
		}
		h := in.shardHandles[p.loc]
		if h == nil {
			return in.callBody(fn, a) // a real shard object (shard-level obligations)
		}
		if !h.open {
			in.finding("assert", "shard-used-after-it-was-closed", nil)
		}
		h.users++
		in.schedule(true)
		if !h.open {
			in.finding("assert", "shard-closed-while-a-request-is-using-it", nil)
		}
		h.users--
		res := fn.Signature.Results()
		if res.Len() == 1 {
			return zero(res.At(0).Type())
		}
		return zero(res)
	}
	for _, m := range []string{"InsertPoints", "UpdatePoints", "DeletePoints", "SearchPoints", "Info"} {
		S["(*"+sh+".Shard)."+m] = use
	}
	in.intrinsics["vhandleopen"] = func(in *Interp, args []Value) Value {
		p, ok := args[0].(PtrV)
		if !ok || p.loc == nil {
			return Bool(false)
		}
		h := in.shardHandles[p.loc]
		return Bool(h != nil && h.open)
	}
	in.intrinsics["vhandleuse"] = func(in *Interp, args []Value) Value {
		p, ok := args[0].(PtrV)
		if ok && p.loc != nil {
			if h := in.shardHandles[p.loc]; h != nil {
				h.users += int(args[1].(*Term).Int())
			}
		}
		return nil
	}
	in.intrinsics["vdirexists"] = func(in *Interp, args []Value) Value {
		s, _ := args[0].(StrV).concrete()
		return Bool(in.fsState().dirs[s])
	}
}

type shardHandle struct {
	path  string
	open  bool
	users int
}

// ---- files (C14 shard transfer): a file is a byte sequence with symbolic content; handles
// read sequentially or append.
type fileObj struct{ data []*Term }

type fileHandle struct {
	path   string
	pos    int
	append bool
	closed bool
}

func (in *Interp) installFileStubs() {
	S := in.stubs
	cpath := func(in *Interp, v Value) string {
		s, ok := v.(StrV).concrete()
		if !ok {
			in.abort("unsupported", "file path with symbolic bytes")
		}
		return s
	}
	parentExists := func(in *Interp, p string) bool {
		i := strings.LastIndex(p, "/")
		if i <= 0 {
			return true
		}
		return in.fsState().dirs[p[:i]]
	}
	newHandle := func(in *Interp, fn *ssa.Function, h *fileHandle) Value {
		l := &Loc{v: BVu(8, 0)}
		in.fileHandles[l] = h
		return PtrV{loc: l}
	}
	S["os.Open"] = func(in *Interp, fn *ssa.Function, a []Value) Value {
		p := cpath(in, a[0])
		if _, ok := in.files[p]; !ok {
			return TupleV{[]Value{PtrV{}, in.notExistErr()}}
		}
		return TupleV{[]Value{newHandle(in, fn, &fileHandle{path: p}), IfaceV{}}}
	}
	S["os.OpenFile"] = func(in *Interp, fn *ssa.Function, a []Value) Value {
		p := cpath(in, a[0])
		flag := a[1].(*Term)
		if !flag.IsConst() {
			in.abort("unsupported", "OpenFile with symbolic flags")
		}
		f := flag.Int()
		const oAppend, oCreate, oTrunc = 0x400, 0x40, 0x200
		if _, ok := in.files[p]; !ok {
			if f&oCreate == 0 || !parentExists(in, p) {
				return TupleV{[]Value{PtrV{}, in.notExistErr()}}
			}
			in.files[p] = &fileObj{}
		}
		if f&oTrunc != 0 {
			in.files[p].data = nil
		}
		return TupleV{[]Value{newHandle(in, fn, &fileHandle{path: p, append: f&oAppend != 0}), IfaceV{}}}
	}
	handle := func(in *Interp, v Value) *fileHandle {
		p, ok := v.(PtrV)
		if !ok || p.loc == nil {
			in.abort("panic", "nil *os.File")
		}
		h := in.fileHandles[p.loc]
		if h == nil {
			in.abort("unsupported", "unknown file handle")
		}
		return h
	}
	S["(*os.File).Close"] = func(in *Interp, fn *ssa.Function, a []Value) Value {
		h := handle(in, a[0])
		if h.closed {
			return in.newErrorString("file already closed")
		}
		h.closed = true
		return IfaceV{}
	}
	S["(*os.File).Read"] = func(in *Interp, fn *ssa.Function, a []Value) Value {
		h := handle(in, a[0])
		buf := a[1].(SliceV)
		f := in.files[h.path]
		if h.closed || f == nil {
			return TupleV{[]Value{BVi(64, 0), in.newErrorString("read of closed or removed file")}}
		}
		n := len(f.data) - h.pos
		if n <= 0 {
			return TupleV{[]Value{BVi(64, 0), in.eofErr()}}
		}
		if n > buf.n {
			n = buf.n
		}
		for i := 0; i < n; i++ {
			buf.arr[buf.off+i].set(f.data[h.pos+i])
		}
		h.pos += n
		return TupleV{[]Value{BVi(64, int64(n)), IfaceV{}}}
	}
	S["(*os.File).Write"] = func(in *Interp, fn *ssa.Function, a []Value) Value {
		h := handle(in, a[0])
		f := in.files[h.path]
		if h.closed || f == nil {
			return TupleV{[]Value{BVi(64, 0), in.newErrorString("write to closed or removed file")}}
		}
		data := sliceBytes(a[1].(SliceV))
		if h.append {
			f.data = append(f.data, data...)
		} else {
			for i, b := range data {
				if h.pos+i < len(f.data) {
					f.data[h.pos+i] = b
				} else {
					f.data = append(f.data, b)
				}
			}
			h.pos += len(data)
		}
		return TupleV{[]Value{BVi(64, int64(len(data))), IfaceV{}}}
	}
	S["path/filepath.Walk"] = func(in *Interp, fn *ssa.Function, a []Value) Value {
		root := cpath(in, a[0])
		f := a[1].(FuncV)
		var paths []string
		for d := range in.fsState().dirs {
			if d == root || strings.HasPrefix(d, root+"/") {
				paths = append(paths, d)
			}
		}
		for p := range in.files {
			if strings.HasPrefix(p, root+"/") {
				paths = append(paths, p)
			}
		}
		sort.Strings(paths)
		for _, p := range paths {
			r := in.call(f.fn, []Value{strConst(p), IfaceV{}, IfaceV{}}, f.binds).(IfaceV)
			if r.t != nil {
				return r
			}
		}
		return IfaceV{}
	}
	in.intrinsics["vwritefile"] = func(in *Interp, args []Value) Value {
		p, _ := args[0].(StrV).concrete()
		fs := in.fsState()
		d := p
		for {
			i := strings.LastIndex(d, "/")
			if i <= 0 {
				break
			}
			d = d[:i]
			fs.dirs[d] = true
		}
		in.files[p] = &fileObj{data: sliceBytes(args[1].(SliceV))}
		return nil
	}
	in.intrinsics["vreadfile"] = func(in *Interp, args []Value) Value {
		p, _ := args[0].(StrV).concrete()
		f, ok := in.files[p]
		if !ok {
			return TupleV{[]Value{SliceV{isNil: true}, Bool(false)}}
		}
		return TupleV{[]Value{bytesSlice(f.data), Bool(true)}}
	}
	// content checksum: an uninterpreted function of (length, content) that is injective on the
	// contents hashed along one path (no 64-bit collisions)
	in.intrinsics["vcontenthash"] = func(in *Interp, args []Value) Value {
		data := sliceBytes(args[0].(SliceV))
		if len(data) == 0 {
			return BVu(64, 0xef46db3751d8e999)
		}
		var cat *Term
		for _, b := range data {
			if cat == nil {
				cat = b
			} else {
				cat = Concat(cat, b)
			}
		}
		h := UF(fmt.Sprintf("filehash%d", len(data)), 64, cat)
		for _, prev := range in.hashedContents {
			if prev.cat.w == cat.w {
				in.addPC(Or(Not(Eq(prev.h, h)), Eq(prev.cat, cat)))
			} else {
				in.addPC(Not(Eq(prev.h, h)))
			}
		}
		in.addPC(Not(Eq(h, BVu(64, 0xef46db3751d8e999))))
		in.hashedContents = append(in.hashedContents, hashedContent{cat, h})
		return h
	}
}

type hashedContent struct{ cat, h *Term }
