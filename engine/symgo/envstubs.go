package symgo

import (
	"go/types"
	"sort"
	"strings"

	"golang.org/x/tools/go/ssa"
)

// ---- environment models used by the shard-manager obligations (C12): timers as events that
// fire at any later scheduling point, an abstract file system of directories, and shard
// handles with an open flag.

type timerObj struct {
	ch     *ChanObj
	active bool
	fired  int
}

type fsObj struct {
	dirs map[string]bool
}

func (in *Interp) fsState() *fsObj {
	if in.fs == nil {
		in.fs = &fsObj{dirs: map[string]bool{"/": true}}
	}
	return in.fs
}

func structField(t types.Type, name string) int {
	st := t.Underlying().(*types.Struct)
	for i := 0; i < st.NumFields(); i++ {
		if st.Field(i).Name() == name {
			return i
		}
	}
	return -1
}

func (in *Interp) notExistErr() Value {
	if in.errNotExist == nil {
		in.errNotExist = in.newErrorString("file does not exist")
	}
	return in.errNotExist
}

func (in *Interp) installEnvStubs() {
	S := in.stubs
	// ---- timers
	S["time.NewTimer"] = func(in *Interp, fn *ssa.Function, a []Value) Value {
		p := in.prog.ImportedPackage("time")
		if p == nil || p.Type("Timer") == nil {
			in.abort("unsupported", "time.Timer type not found")
		}
		tt := p.Type("Timer").Type()
		l := newLoc(zero(tt))
		tm := &timerObj{ch: &ChanObj{cap: 1}, active: true}
		l.sub[structField(tt, "C")].set(ChanV{tm.ch})
		in.timers[l] = tm
		// the environment: fires the timer at any scheduling point while it is active
		in.spawnDaemon(func() {
			for {
				in.blockUntil(func() bool { return tm.active })
				in.schedule(true)
				if tm.active {
					tm.active = false
					tm.fired++
					if len(tm.ch.buf) < tm.ch.cap {
						in.chanOp([]offer{{ch: tm.ch, send: true, val: zero(tt.Underlying().(*types.Struct).Field(structField(tt, "C")).Type().Underlying().(*types.Chan).Elem())}}, false)
					}
				}
			}
		})
		in.envThreads++
		return PtrV{loc: l}
	}
	S["(*time.Timer).Stop"] = func(in *Interp, fn *ssa.Function, a []Value) Value {
		tm := in.timers[a[0].(PtrV).loc]
		if tm == nil {
			in.abort("unsupported", "Stop on unknown timer")
		}
		in.schedule(true)
		was := tm.active
		tm.active = false
		return Bool(was)
	}
	S["(*time.Timer).Reset"] = func(in *Interp, fn *ssa.Function, a []Value) Value {
		tm := in.timers[a[0].(PtrV).loc]
		if tm == nil {
			in.abort("unsupported", "Reset on unknown timer")
		}
		was := tm.active
		tm.active = true
		in.schedule(true)
		return Bool(was)
	}
	// ---- abstract file system (directories only)
	concretePath := func(in *Interp, v Value) string {
		s, ok := v.(StrV).concrete()
		if !ok {
			in.abort("unsupported", "file system path with symbolic bytes")
		}
		return s
	}
	S["os.MkdirAll"] = func(in *Interp, fn *ssa.Function, a []Value) Value {
		p := concretePath(in, a[0])
		fs := in.fsState()
		for p != "" && p != "/" {
			fs.dirs[p] = true
			i := strings.LastIndex(p, "/")
			if i <= 0 {
				break
			}
			p = p[:i]
		}
		return IfaceV{}
	}
	S["os.Stat"] = func(in *Interp, fn *ssa.Function, a []Value) Value {
		p := concretePath(in, a[0])
		if in.fsState().dirs[p] {
			return TupleV{[]Value{IfaceV{}, IfaceV{}}}
		}
		return TupleV{[]Value{IfaceV{}, in.notExistErr()}}
	}
	S["os.IsNotExist"] = func(in *Interp, fn *ssa.Function, a []Value) Value {
		e, ok := a[0].(IfaceV)
		if !ok || e.t == nil {
			return Bool(false)
		}
		return in.valEq(e, in.notExistErr())
	}
	S["os.ReadDir"] = func(in *Interp, fn *ssa.Function, a []Value) Value {
		p := concretePath(in, a[0])
		fs := in.fsState()
		if !fs.dirs[p] {
			return TupleV{[]Value{SliceV{isNil: true}, in.notExistErr()}}
		}
		if in.HarnessPkg == nil || in.HarnessPkg.Type("verifDirEntry") == nil {
			in.abort("unsupported", "os.ReadDir needs a harness type verifDirEntry{name string}")
		}
		et := in.HarnessPkg.Type("verifDirEntry").Type()
		var names []string
		for d := range fs.dirs {
			if strings.HasPrefix(d, p+"/") && !strings.Contains(d[len(p)+1:], "/") {
				names = append(names, d[len(p)+1:])
			}
		}
		sort.Strings(names)
		arr := make([]*Loc, len(names))
		for i, n := range names {
			arr[i] = &Loc{v: IfaceV{t: et, v: StructV{[]Value{strConst(n)}}}}
		}
		return TupleV{[]Value{SliceV{arr: arr, n: len(arr), cp: len(arr)}, IfaceV{}}}
	}
	rm := func(all bool) func(in *Interp, fn *ssa.Function, a []Value) Value {
		return func(in *Interp, fn *ssa.Function, a []Value) Value {
			p := concretePath(in, a[0])
			fs := in.fsState()
			if !fs.dirs[p] {
				if all {
					return IfaceV{}
				}
				return in.notExistErr()
			}
			hasChild := false
			for d := range fs.dirs {
				if strings.HasPrefix(d, p+"/") {
					hasChild = true
				}
			}
			if hasChild && !all {
				return in.newErrorString("remove " + p + ": directory not empty")
			}
			in.fsRemoved = append(in.fsRemoved, p)
			for d := range fs.dirs {
				if d == p || strings.HasPrefix(d, p+"/") {
					delete(fs.dirs, d)
				}
			}
			return IfaceV{}
		}
	}
	S["os.RemoveAll"] = rm(true)
	S["os.Remove"] = rm(false)
	// ---- shard handles
	const sh = "github.com/semafind/semadb/shard"
	S[sh+".NewShard"] = func(in *Interp, fn *ssa.Function, a []Value) Value {
		path := concretePath(in, a[0])
		for _, h := range in.shardHandles {
			if h.path == path && h.open {
				in.finding("assert", "shard-opened-twice-at-the-same-time", nil)
			}
		}
		l := &Loc{v: BVu(8, 0)}
		in.shardHandles[l] = &shardHandle{path: path, open: true}
		in.schedule(true)
		return TupleV{[]Value{PtrV{loc: l}, IfaceV{}}}
	}
	S["(*"+sh+".Shard).Close"] = func(in *Interp, fn *ssa.Function, a []Value) Value {
		h := in.shardHandles[a[0].(PtrV).loc]
		if h == nil {
			in.abort("panic", "Close on nil shard")
		}
		in.schedule(true)
		if h.users > 0 {
			in.finding("assert", "shard-closed-while-a-request-is-using-it", nil)
		}
		h.open = false
		return IfaceV{}
	}
	S["(*"+sh+".Shard).Backup"] = func(in *Interp, fn *ssa.Function, a []Value) Value {
		in.schedule(true)
		return IfaceV{}
	}
	in.intrinsics["vhandleopen"] = func(in *Interp, args []Value) Value {
		p, ok := args[0].(PtrV)
		if !ok || p.loc == nil {
			return Bool(false)
		}
		h := in.shardHandles[p.loc]
		return Bool(h != nil && h.open)
	}
	in.intrinsics["vhandleuse"] = func(in *Interp, args []Value) Value {
		p, ok := args[0].(PtrV)
		if ok && p.loc != nil {
			if h := in.shardHandles[p.loc]; h != nil {
				h.users += int(args[1].(*Term).Int())
			}
		}
		return nil
	}
	in.intrinsics["vdirexists"] = func(in *Interp, args []Value) Value {
		s, _ := args[0].(StrV).concrete()
		return Bool(in.fsState().dirs[s])
	}
}

type shardHandle struct {
	path  string
	open  bool
	users int
}
