package symgo

import (
	"fmt"
	"go/types"

	"golang.org/x/tools/go/ssa"
)

type Value interface{}

type Loc struct {
	v   Value
	sub []*Loc
}
type PtrV struct{ loc *Loc }
type SliceV struct {
	arr        []*Loc
	off, n, cp int
	isNil      bool
}
type StrV struct{ b []*Term }
type StructV struct{ f []Value }
type ArrayV struct{ e []Value }
type TupleV struct{ e []Value }
type IfaceV struct {
	t types.Type
	v Value
}
type FuncV struct {
	fn     *ssa.Function
	binds  []Value
	native func(in *Interp, args []Value) Value
}
type MapObj struct {
	keys []Value
	vals []Value
}
type MapV struct{ m *MapObj }
type OpaqueV struct {
	tag string
	id  int
}
type IterV struct { // range iterator
	keys  []Value
	isMap bool
	m     *MapObj
	order []int
	str   StrV
	pos   int
}

func intWidth(b *types.Basic) (int, bool) { // width, signed
	switch b.Kind() {
	case types.Int8:
		return 8, true
	case types.Int16:
		return 16, true
	case types.Int32:
		return 32, true
	case types.Int64, types.Int:
		return 64, true
	case types.Uint8:
		return 8, false
	case types.Uint16:
		return 16, false
	case types.Uint32:
		return 32, false
	case types.Uint64, types.Uint, types.Uintptr:
		return 64, false
	case types.Float32:
		return 32, false
	case types.Float64:
		return 64, false
	case types.UntypedInt:
		return 64, true
	case types.UntypedRune:
		return 32, true
	case types.UntypedFloat:
		return 64, false
	}
	return 0, false
}

func isFloat(t types.Type) bool {
	b, ok := t.Underlying().(*types.Basic)
	return ok && b.Info()&types.IsFloat != 0
}
func isString(t types.Type) bool {
	b, ok := t.Underlying().(*types.Basic)
	return ok && b.Info()&types.IsString != 0
}
func isBoolT(t types.Type) bool {
	b, ok := t.Underlying().(*types.Basic)
	return ok && b.Info()&types.IsBoolean != 0
}
func isSigned(t types.Type) bool {
	b, ok := t.Underlying().(*types.Basic)
	if !ok {
		return false
	}
	_, s := intWidth(b)
	return s
}
func widthOf(t types.Type) int {
	b, ok := t.Underlying().(*types.Basic)
	if !ok {
		return 0
	}
	w, _ := intWidth(b)
	return w
}

func zero(t types.Type) Value {
	switch u := t.Underlying().(type) {
	case *types.Basic:
		if u.Info()&types.IsBoolean != 0 {
			return Bool(false)
		}
		if u.Info()&types.IsString != 0 {
			return StrV{}
		}
		if u.Kind() == types.UnsafePointer {
			return PtrV{}
		}
		if u.Kind() == types.UntypedNil {
			return nil
		}
		w, _ := intWidth(u)
		if w == 0 {
			panic(fmt.Sprintf("zero: basic %v", u))
		}
		return BVu(w, 0)
	case *types.Pointer:
		return PtrV{}
	case *types.Slice:
		return SliceV{isNil: true}
	case *types.Struct:
		f := make([]Value, u.NumFields())
		for i := range f {
			f[i] = zero(u.Field(i).Type())
		}
		return StructV{f}
	case *types.Array:
		e := make([]Value, u.Len())
		for i := range e {
			e[i] = zero(u.Elem())
		}
		return ArrayV{e}
	case *types.Interface:
		return IfaceV{}
	case *types.Signature:
		return FuncV{}
	case *types.Map:
		return MapV{}
	case *types.Chan:
		return ChanV{}
	case *types.Tuple:
		e := make([]Value, u.Len())
		for i := range e {
			e[i] = zero(u.At(i).Type())
		}
		return TupleV{e}
	}
	panic(fmt.Sprintf("zero: %T %v", t.Underlying(), t))
}

func newLoc(v Value) *Loc {
	switch x := v.(type) {
	case StructV:
		l := &Loc{sub: make([]*Loc, len(x.f))}
		for i, f := range x.f {
			l.sub[i] = newLoc(f)
		}
		return l
	case ArrayV:
		l := &Loc{sub: make([]*Loc, len(x.e))}
		for i, f := range x.e {
			l.sub[i] = newLoc(f)
		}
		return l
	}
	return &Loc{v: v}
}

func load(l *Loc, t types.Type) Value {
	if l.sub != nil {
		switch u := t.Underlying().(type) {
		case *types.Struct:
			f := make([]Value, len(l.sub))
			for i := range f {
				f[i] = load(l.sub[i], u.Field(i).Type())
			}
			return StructV{f}
		case *types.Array:
			e := make([]Value, len(l.sub))
			for i := range e {
				e[i] = load(l.sub[i], u.Elem())
			}
			return ArrayV{e}
		}
		panic("load: aggregate loc with non-aggregate type " + t.String())
	}
	return l.v
}

func store(l *Loc, v Value) {
	switch x := v.(type) {
	case StructV:
		if l.sub == nil {
			nl := newLoc(v)
			l.sub = nl.sub
			return
		}
		for i, f := range x.f {
			store(l.sub[i], f)
		}
		return
	case ArrayV:
		if l.sub == nil {
			nl := newLoc(v)
			l.sub = nl.sub
			return
		}
		for i, f := range x.e {
			store(l.sub[i], f)
		}
		return
	}
	l.v = v
}
