package symgo

import (
	"fmt"
	"go/types"

	"golang.org/x/tools/go/ssa"
)

type Value interface{}

type Loc struct {
	v    Value
	sub  []*Loc
	view *viewCell
}

// viewCell makes a Loc a reinterpreting view (unsafe.Slice over a pointer cast)
// onto cells of another width: little-endian, as on amd64.
type viewCell struct {
	base []*Loc // underlying scalar cells
	bw   int    // width of a base cell
	vw   int    // width of this view cell
	idx  int    // index of this view cell (in units of vw) from the start of base
}

func (l *Loc) get() Value {
	if l.view == nil {
		return l.v
	}
	vc := l.view
	if vc.vw < vc.bw {
		per := vc.bw / vc.vw
		b := vc.base[vc.idx/per].get().(*Term)
		k := vc.idx % per
		return Extract(k*vc.vw+vc.vw-1, k*vc.vw, b)
	}
	per := vc.vw / vc.bw
	var r *Term
	for k := per - 1; k >= 0; k-- {
		b := vc.base[vc.idx*per+k].get().(*Term)
		if r == nil {
			r = b
		} else {
			r = Concat(r, b)
		}
	}
	return r
}

func (l *Loc) set(v Value) {
	if l.view == nil {
		l.v = v
		return
	}
	vc := l.view
	t := v.(*Term)
	if vc.vw < vc.bw {
		per := vc.bw / vc.vw
		cell := vc.base[vc.idx/per]
		b := cell.get().(*Term)
		k := vc.idx % per
		lo, hi := k*vc.vw, k*vc.vw+vc.vw-1
		r := t
		if lo > 0 {
			r = Concat(r, Extract(lo-1, 0, b))
		}
		if hi < vc.bw-1 {
			r = Concat(Extract(vc.bw-1, hi+1, b), r)
		}
		cell.set(r)
		return
	}
	per := vc.vw / vc.bw
	for k := 0; k < per; k++ {
		vc.base[vc.idx*per+k].set(Extract(k*vc.bw+vc.bw-1, k*vc.bw, t))
	}
}

// PtrV is a pointer. arr/idx are set when the pointer was formed by indexing a
// slice or array (needed by unsafe.Slice reinterpretation).
type PtrV struct {
	loc *Loc
	arr []*Loc
	idx int
}
type SliceV struct {
	arr        []*Loc
	off, n, cp int
	isNil      bool
	symLen     *Term // non-nil: opaque content, symbolic length (only len() is supported)
}
type StrV struct{ b []*Term }
type StructV struct{ f []Value }
type ArrayV struct{ e []Value }
type TupleV struct{ e []Value }
type IfaceV struct {
	t types.Type
	v Value
}
type FuncV struct {
	fn     *ssa.Function
	binds  []Value
	native func(in *Interp, args []Value) Value
}
type MapObj struct {
	floatKey bool
	keys []Value
	vals []Value
}
type MapV struct{ m *MapObj }
type OpaqueV struct {
	tag string
	id  int
}
type IterV struct { // range iterator
	keys  []Value
	isMap bool
	m     *MapObj
	order []int
	str   StrV
	pos   int
}

func intWidth(b *types.Basic) (int, bool) { // width, signed
	switch b.Kind() {
	case types.Int8:
		return 8, true
	case types.Int16:
		return 16, true
	case types.Int32:
		return 32, true
	case types.Int64, types.Int:
		return 64, true
	case types.Uint8:
		return 8, false
	case types.Uint16:
		return 16, false
	case types.Uint32:
		return 32, false
	case types.Uint64, types.Uint, types.Uintptr:
		return 64, false
	case types.Float32:
		return 32, false
	case types.Float64:
		return 64, false
	case types.UntypedInt:
		return 64, true
	case types.UntypedRune:
		return 32, true
	case types.UntypedFloat:
		return 64, false
	}
	return 0, false
}

func isFloat(t types.Type) bool {
	b, ok := t.Underlying().(*types.Basic)
	return ok && b.Info()&types.IsFloat != 0
}
func isString(t types.Type) bool {
	b, ok := t.Underlying().(*types.Basic)
	return ok && b.Info()&types.IsString != 0
}
func isBoolT(t types.Type) bool {
	b, ok := t.Underlying().(*types.Basic)
	return ok && b.Info()&types.IsBoolean != 0
}
func isSigned(t types.Type) bool {
	b, ok := t.Underlying().(*types.Basic)
	if !ok {
		return false
	}
	_, s := intWidth(b)
	return s
}
func widthOf(t types.Type) int {
	b, ok := t.Underlying().(*types.Basic)
	if !ok {
		return 0
	}
	w, _ := intWidth(b)
	return w
}

func zero(t types.Type) Value {
	switch u := t.Underlying().(type) {
	case *types.Basic:
		if u.Info()&types.IsBoolean != 0 {
			return Bool(false)
		}
		if u.Info()&types.IsString != 0 {
			return StrV{}
		}
		if u.Kind() == types.UnsafePointer {
			return PtrV{}
		}
		if u.Kind() == types.UntypedNil {
			return nil
		}
		w, _ := intWidth(u)
		if w == 0 {
			panic(fmt.Sprintf("zero: basic %v", u))
		}
		return BVu(w, 0)
	case *types.Pointer:
		return PtrV{}
	case *types.Slice:
		return SliceV{isNil: true}
	case *types.Struct:
		f := make([]Value, u.NumFields())
		for i := range f {
			f[i] = zero(u.Field(i).Type())
		}
		return StructV{f}
	case *types.Array:
		e := make([]Value, u.Len())
		for i := range e {
			e[i] = zero(u.Elem())
		}
		return ArrayV{e}
	case *types.Interface:
		return IfaceV{}
	case *types.Signature:
		return FuncV{}
	case *types.Map:
		return MapV{}
	case *types.Chan:
		return ChanV{}
	case *types.Tuple:
		e := make([]Value, u.Len())
		for i := range e {
			e[i] = zero(u.At(i).Type())
		}
		return TupleV{e}
	}
	panic(fmt.Sprintf("zero: %T %v", t.Underlying(), t))
}

func newLoc(v Value) *Loc {
	switch x := v.(type) {
	case StructV:
		l := &Loc{sub: make([]*Loc, len(x.f))}
		for i, f := range x.f {
			l.sub[i] = newLoc(f)
		}
		return l
	case ArrayV:
		l := &Loc{sub: make([]*Loc, len(x.e))}
		for i, f := range x.e {
			l.sub[i] = newLoc(f)
		}
		return l
	}
	return &Loc{v: v}
}

func load(l *Loc, t types.Type) Value {
	if l.sub != nil {
		switch u := t.Underlying().(type) {
		case *types.Struct:
			f := make([]Value, len(l.sub))
			for i := range f {
				f[i] = load(l.sub[i], u.Field(i).Type())
			}
			return StructV{f}
		case *types.Array:
			e := make([]Value, len(l.sub))
			for i := range e {
				e[i] = load(l.sub[i], u.Elem())
			}
			return ArrayV{e}
		}
		panic("load: aggregate loc with non-aggregate type " + t.String())
	}
	return l.get()
}

func store(l *Loc, v Value) {
	switch x := v.(type) {
	case StructV:
		if l.sub == nil {
			nl := newLoc(v)
			l.sub = nl.sub
			return
		}
		for i, f := range x.f {
			store(l.sub[i], f)
		}
		return
	case ArrayV:
		if l.sub == nil {
			nl := newLoc(v)
			l.sub = nl.sub
			return
		}
		for i, f := range x.e {
			store(l.sub[i], f)
		}
		return
	}
	l.set(v)
}
