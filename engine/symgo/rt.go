package symgo

import "strings"

// The harness runtime is generated into every package that carries harnesses.
// Symbolic flavour (build tag !verifnative): bodies are never executed, the
// executor intercepts these functions by name. Native flavour (verifnative):
// values come from the replay file named by VERIF_REPLAY.

const rtDecls = `
func nondetInt64() int64            { return int64(verifNext()) }
func nondetUint64() uint64          { return verifNext() }
func nondetInt() int                { return int(verifNext()) }
func nondetUint32() uint32          { return uint32(verifNext()) }
func nondetFloat64() float64        { return verifF64(verifNext()) }
func nondetFloat32() float32        { return verifF32(uint32(verifNext())) }
func nondetByte() byte              { return byte(verifNext()) }
func nondetBool() bool              { return verifNext()&1 != 0 }
func nondetIntRange(lo, hi int) int { v := verifNext(); n := uint64(hi-lo) + 1; return lo + int((v-uint64(lo))%n) }
func nondetBytes(n int) []byte      { b := make([]byte, n); for i := range b { b[i] = nondetByte() }; return b }
func nondetString(n int) string     { return string(nondetBytes(n)) }
func nondetOpaqueBytes(max int) []byte { return make([]byte, int(verifNext()%uint64(max+1))) }
func vassume(c bool)                { if !c { verifAssumeFailed() } }
func vassert(label string, c bool)  { if !c { verifAssertFailed(label) } }
func vcover(label string)           {}
func vsched(d int)                  {}
func vyield()                       { verifYield() }
func vparam(name string, def int) int { return verifParam(name, def) }
func vlocksheld() int               { return 0 }
func vsymbolic() bool               { return false }
func vmaporder(n int)               {}
func vobserve(label string, v uint64) { verifObserve(label, v) }
`

func RTSym(pkg string, doc bool) string { return RTSymX(pkg, doc, false) }

func RTSymX(pkg string, doc, bolt bool) string {
	var sb strings.Builder
	sb.WriteString("//go:build !verifnative\n\npackage " + pkg + "\n\n")
	sb.WriteString(`
func verifNext() uint64                   { panic("symbolic only") }
func verifF64(u uint64) float64           { panic("symbolic only") }
func verifF32(u uint32) float32           { panic("symbolic only") }
func verifAssumeFailed()                  {}
func verifAssertFailed(label string)      {}
func verifYield()                         {}
func verifParam(name string, def int) int { return def }
func verifObserve(label string, v uint64) {}
`)
	sb.WriteString(rtDecls)
	if doc {
		sb.WriteString("\nfunc vdoc(m map[string]any) []byte { panic(\"symbolic only\") }\n")
	}
	if bolt {
		sb.WriteString("\nfunc vboltbucket(keys, vals [][]byte) *bbolt.Bucket { panic(\"symbolic only\") }\nfunc vboltdb() *bbolt.DB { panic(\"symbolic only\") }\nfunc vboltopentx(db *bbolt.DB) int { panic(\"symbolic only\") }\nfunc vboltfaults(db *bbolt.DB, on bool) {}\nfunc vscratchpath() string { return \"/scratch/backup.bbolt\" }\nfunc vboltlocked(path string) bool { panic(\"symbolic only\") }\n")
		return strings.Replace(sb.String(), "package "+pkg+"\n", "package "+pkg+"\n\nimport \"go.etcd.io/bbolt\"\n", 1)
	}
	return sb.String()
}

func RTNative(pkg string, doc bool) string { return RTNativeX(pkg, doc, false) }

func RTNativeX(pkg string, doc, bolt bool) string {
	var sb strings.Builder
	sb.WriteString("//go:build verifnative\n\npackage " + pkg + "\n\n")
	sb.WriteString(`import (
	"fmt"
	"math"
	"os"
	"runtime"
	"sync"
	"time"
`)
	if doc {
		sb.WriteString("\t\"github.com/vmihailenco/msgpack/v5\"\n")
	}
	if bolt {
		sb.WriteString("\t\"go.etcd.io/bbolt\"\n")
	}
	sb.WriteString(`)

type verifAssumeFail struct{}
type verifAssertFail struct{ label string }

var verifVec []uint64
var verifPos int
var verifParams map[string]int64
var verifObs []string

func verifNext() uint64 {
	if verifPos >= len(verifVec) {
		verifPos++
		return 0
	}
	v := verifVec[verifPos]
	verifPos++
	return v
}
func verifF64(u uint64) float64 { return math.Float64frombits(u) }
func verifF32(u uint32) float32 { return math.Float32frombits(u) }
func verifAssumeFailed()        { panic(verifAssumeFail{}) }
func verifAssertFailed(label string) { panic(verifAssertFail{label}) }
// native yield: a random short pause so that repeated (stress) replays of a schedule-dependent
// counterexample cover different interleavings around harness-owned code
var verifRng uint64 = 0x9E3779B97F4A7C15
var verifRngMu sync.Mutex

func init() {
	// every stress run draws different pauses
	verifRng ^= uint64(time.Now().UnixNano())*0x2545F4914F6CDD1D ^ uint64(os.Getpid())<<32
	if verifRng == 0 {
		verifRng = 1
	}
}

func verifYield() {
	verifRngMu.Lock()
	verifRng ^= verifRng << 13
	verifRng ^= verifRng >> 7
	verifRng ^= verifRng << 17
	r := verifRng
	verifRngMu.Unlock()
	if r>>24%128 == 0 { // rarely: longer than the harnesses' one second timers (an idle timer firing during a request)
		time.Sleep(time.Duration(1100+r>>12%200) * time.Millisecond)
		return
	}
	if r>>40%16 == 0 { // heavy tail: now and then a goroutine stalls long enough for others to run to completion
		time.Sleep(time.Duration(5+r>>12%25) * time.Millisecond)
		return
	}
	switch r % 4 {
	case 0:
		runtime.Gosched()
	case 1:
		time.Sleep(time.Duration(r>>8%200) * time.Microsecond)
	case 2:
		time.Sleep(time.Duration(r>>8%2000) * time.Microsecond)
	}
}
func verifParam(name string, def int) int {
	if v, ok := verifParams[name]; ok {
		return int(v)
	}
	return def
}
func verifObserve(label string, v uint64) { verifObs = append(verifObs, fmt.Sprintf("%s=%d", label, v)) }
`)
	sb.WriteString(rtDecls)
	if doc {
		sb.WriteString(`
func vdoc(m map[string]any) []byte {
	b, err := msgpack.Marshal(m)
	if err != nil {
		panic(err)
	}
	return b
}
`)
	}
	if bolt {
		sb.WriteString(`
var verifTmpFiles []string

// a real, empty bbolt database in a scratch file
func vboltdb() *bbolt.DB {
	f, err := os.CreateTemp("", "verifboltdb")
	if err != nil {
		panic(err)
	}
	path := f.Name()
	f.Close()
	verifTmpFiles = append(verifTmpFiles, path)
	db, err := bbolt.Open(path, 0600, nil)
	if err != nil {
		panic(err)
	}
	return db
}

// transactions still open: read transactions from the statistics, a leaked read-write
// transaction by probing the writer lock
func vboltopentx(db *bbolt.DB) int {
	n := db.Stats().OpenTxN
	got := make(chan *bbolt.Tx, 1)
	go func() {
		tx, err := db.Begin(true)
		if err != nil {
			got <- nil
			return
		}
		got <- tx
	}()
	select {
	case tx := <-got:
		if tx != nil {
			tx.Rollback()
		}
	case <-time.After(300 * time.Millisecond):
		n++
	}
	return n
}

// environment faults (commit failure) cannot be injected into the real library
func vboltfaults(db *bbolt.DB, on bool) {}

// is the database file still held open (locked) by this process?
func vboltlocked(path string) bool {
	db, err := bbolt.Open(path, 0600, &bbolt.Options{Timeout: 300 * time.Millisecond})
	if err != nil {
		return true
	}
	db.Close()
	return false
}

func vscratchpath() string {
	f, err := os.CreateTemp("", "verifscratch")
	if err != nil {
		panic(err)
	}
	path := f.Name()
	f.Close()
	os.Remove(path)
	verifTmpFiles = append(verifTmpFiles, path)
	return path
}

// a real bbolt bucket holding the given keys, inside a read transaction of a scratch database
func vboltbucket(keys, vals [][]byte) *bbolt.Bucket {
	f, err := os.CreateTemp("", "verifbolt")
	if err != nil {
		panic(err)
	}
	path := f.Name()
	f.Close()
	verifTmpFiles = append(verifTmpFiles, path)
	db, err := bbolt.Open(path, 0600, nil)
	if err != nil {
		panic(err)
	}
	err = db.Update(func(tx *bbolt.Tx) error {
		b, err := tx.CreateBucketIfNotExists([]byte("b"))
		if err != nil {
			return err
		}
		for i, k := range keys {
			var v []byte
			if i < len(vals) {
				v = vals[i]
			}
			if v == nil {
				v = []byte{}
			}
			if err := b.Put(k, v); err != nil {
				return err
			}
		}
		return nil
	})
	if err != nil {
		panic(err)
	}
	tx, err := db.Begin(true)
	if err != nil {
		panic(err)
	}
	verifOpenTx = append(verifOpenTx, func() { tx.Rollback(); db.Close(); os.Remove(path) })
	return tx.Bucket([]byte("b"))
}

var verifOpenTx []func()
`)
	} else {
		sb.WriteString("\nvar verifOpenTx []func()\n")
	}
	return sb.String()
}

// ReplayTest is the generated _test.go file that drives a harness natively over
// the vectors of a replay file and prints one machine-readable line per vector.
func ReplayTest(pkg, fn string) string {
	return `//go:build verifnative

package ` + pkg + `

import (
	"encoding/json"
	"fmt"
	"os"
	"strings"
	"testing"
)

type verifReplayFile struct {
	Fn      string           ` + "`json:\"fn\"`" + `
	Params  map[string]int64 ` + "`json:\"params\"`" + `
	Vectors [][]uint64       ` + "`json:\"vectors\"`" + `
}

func verifRunVector(vec []uint64) (res string) {
	verifVec, verifPos, verifObs = vec, 0, nil
	defer func() {
		if r := recover(); r != nil {
			switch x := r.(type) {
			case verifAssumeFail:
				res = "assume-failed"
			case verifAssertFail:
				res = "assert-fail " + x.label
			default:
				res = "panic " + strings.ReplaceAll(fmt.Sprint(r), "\n", " ")
			}
		}
	}()
	` + fn + `()
	return "pass"
}

func TestVerifReplay(t *testing.T) {
	b, err := os.ReadFile(os.Getenv("VERIF_REPLAY"))
	if err != nil {
		t.Fatal(err)
	}
	var rf verifReplayFile
	if err := json.Unmarshal(b, &rf); err != nil {
		t.Fatal(err)
	}
	verifParams = rf.Params
	for i, vec := range rf.Vectors {
		res := verifRunVector(vec)
		for _, f := range verifOpenTx {
			f()
		}
		verifOpenTx = nil
		fmt.Printf("VERIF-REPLAY-RESULT %d %s | %s\n", i, res, strings.Join(verifObs, " "))
	}
}
`
}
