package symgo

import (
	"fmt"
	"go/constant"
	"go/token"
	"go/types"
	"math"
	"math/big"
	"os"
	"sort"
	"strings"
	"sync"

	"golang.org/x/tools/go/ssa"
)

type decision struct {
	alts []int
	idx  int
}

type pathEnd struct {
	kind string // "done","infeasible","unsupported","panic","limit","abortSignal"
	msg  string
}

// NondetVal is one value handed out by a nondet intrinsic on the path of a finding.
type NondetVal struct {
	Name  string `json:"name"`
	Width int    `json:"width"` // 0 = bool
	Val   string `json:"val"`   // decimal, unsigned
}

type Finding struct {
	Kind    string      `json:"kind"` // assert | panic | deadlock
	Label   string      `json:"label"`
	Nondets []NondetVal `json:"nondets"`
	Path    []int       `json:"path"`
	Count   int         `json:"count"`
}

type Config struct {
	RepoPfx       string
	MaxPreempt    int
	DelayMode     bool
	FreezeMode    bool
	DetSched      bool
	ExploreSelect bool
	Unstub        []string // environment models switched off for this run (the real code is interpreted)
	LeakCheck     bool
	MaxSteps      int64
	MaxDepth      int
	Unwind        int
	MaxPaths      int
	MapOrderMax   int
	Params        map[string]int64
	Redirects     map[string]string // repo function (ssa String()) -> harness function name in the same package
	Progress      bool
	ExactFloat    bool // float + - * / as SMT FloatingPoint operations (small obligations only)
	AbstractConv  bool // int<->float and float<->float conversions as uninterpreted functions
	// Prefix restricts exploration to paths whose first decisions equal Prefix
	// (used to split one obligation over several workers). Decisions are alt values.
	Prefix []int
	// SplitN>1: this worker explores only the decision prefixes of length SplitDepth
	// that hash to bucket SplitI.
	SplitN, SplitI, SplitDepth int
	// SampleEnds: number of completed paths for which a model of the nondet values is
	// kept (translator validation vectors).
	SampleEnds int
}

type Interp struct {
	cfg    Config
	prog   *ssa.Program
	solver *Solver

	globals   map[*ssa.Global]*Loc
	initDone  map[*ssa.Package]bool
	initEntry bool
	pc        []*Term
	pcVars    map[string]*Term
	lastModel map[string]*big.Int
	trail     []decision
	pos       int
	nondets   []*Term
	nfresh    int
	depth     int
	steps     int64

	Instrs    int64
	Paths     int
	Findings  []*Finding
	Covers    map[string]int
	Unsup     map[string]int
	Funcs     map[string]bool // repo functions interpreted
	ModelHits int
	Asserts   int
	Completed int
	Truncated bool
	HarnessPkg *ssa.Package
	EndSamples   [][]uint64
	CoverSamples map[string][]NondetVal

	stubs      map[string]func(in *Interp, fn *ssa.Function, args []Value) Value
	intrinsics map[string]func(in *Interp, args []Value) Value

	// concurrency
	threads    []*Thread
	cur        *Thread
	aborting   bool
	preempts   int
	mutexes    map[*Loc]*mutexState
	wgs        map[*Loc]*int
	onces      map[*Loc]bool
	live       sync.WaitGroup
	ctl        chan pathEnd
	delaysLeft int
	freezesLeft int
	Schedules  int

	// library models
	docs     map[*Loc]Value
	sets     map[*Loc]*SetObj
	decs     map[*Loc]Value
	hashSeen []string
	uuidStrs map[*Term]Value
	bolts    map[*Loc]*boltBucket
	cursors  map[*Loc]*boltCursor
	boltDBs  map[*Loc]*boltDB
	boltTxs  map[*Loc]*boltTx
	bitsets  map[*Loc]*bitsetObj
	builders map[*Loc]*[]*Term
	timers   map[*Loc]*timerObj
	fs       *fsObj
	fsRemoved []string
	errNotExist Value
	shardHandles map[*Loc]*shardHandle
	files        map[string]*fileObj
	fileHandles  map[*Loc]*fileHandle
	hashedContents []hashedContent
	envThreads int
	ghost    map[string]Value
	conc     *concState
	mapOrderOverride int
}

type Frame struct {
	fn     *ssa.Function
	env    map[ssa.Value]Value
	defers []func()
	visits map[*ssa.BasicBlock]int
}

func New(prog *ssa.Program, solver *Solver, cfg Config) *Interp {
	if cfg.MaxSteps == 0 {
		cfg.MaxSteps = 5_000_000
	}
	if cfg.MaxDepth == 0 {
		cfg.MaxDepth = 200
	}
	if cfg.Unwind == 0 {
		cfg.Unwind = 64
	}
	if cfg.MaxPaths == 0 {
		cfg.MaxPaths = 2_000_000
	}
	if cfg.MapOrderMax == 0 {
		cfg.MapOrderMax = 3
	}
	in := &Interp{cfg: cfg, prog: prog, solver: solver, Covers: map[string]int{}, Unsup: map[string]int{}, Funcs: map[string]bool{}, CoverSamples: map[string][]NondetVal{}}
	in.installIntrinsics()
	in.installStubs()
	for _, n := range cfg.Unstub {
		delete(in.stubs, n)
	}
	return in
}

func (in *Interp) abort(kind, msg string) { panic(pathEnd{kind, msg}) }

// ---- decisions
func (in *Interp) choose(alts func() []int) int {
	if in.pos < len(in.trail) {
		d := in.trail[in.pos]
		in.pos++
		return d.alts[d.idx]
	}
	a := alts()
	if len(a) == 0 {
		in.abort("infeasible", "no alternative")
	}
	if in.cfg.SplitN > 1 && in.pos == in.cfg.SplitDepth-1 {
		// this worker's share: decision prefixes whose hash falls into its bucket
		h := uint64(1469598103934665603)
		for i := 0; i < in.pos; i++ {
			h = (h ^ uint64(in.trail[i].alts[in.trail[i].idx]+1)) * 1099511628211
		}
		var mine []int
		for _, x := range a {
			hx := (h ^ uint64(x+1)) * 1099511628211
			if int((hx>>17)%uint64(in.cfg.SplitN)) == in.cfg.SplitI {
				mine = append(mine, x)
			}
		}
		if len(mine) == 0 {
			in.trail = append(in.trail, decision{alts: a[:1]})
			in.pos++
			in.abort("infeasible", "not this worker's share")
		}
		a = mine
	}
	if in.pos < len(in.cfg.Prefix) {
		// restricted to one alternative by the worker prefix
		want := in.cfg.Prefix[in.pos]
		ok := false
		for _, x := range a {
			if x == want {
				ok = true
			}
		}
		if !ok {
			in.abort("infeasible", "prefix alternative not feasible")
		}
		a = []int{want}
	}
	in.trail = append(in.trail, decision{alts: a})
	in.pos++
	return a[0]
}

func (in *Interp) mapOrderMax() int {
	if in.mapOrderOverride >= 0 {
		return in.mapOrderOverride
	}
	return in.cfg.MapOrderMax
}

func (in *Interp) replaying() bool { return in.pos < len(in.trail) }

func (in *Interp) addPC(c *Term) {
	in.pc = append(in.pc, c)
	c.Vars(in.pcVars)
	if in.lastModel != nil {
		v, ok := c.Eval(in.lastModel)
		if !ok || v.Sign() == 0 {
			// maybe the term mentions variables the model has no value for: they are unconstrained so far
			if !in.evalDefault(c) {
				in.lastModel = nil
			}
		}
	}
}

// evalDefault evaluates c under lastModel extended with 0 for variables that do
// not occur in the path condition yet (sound: the model did not constrain them).
func (in *Interp) evalDefault(c *Term) bool {
	vs := map[string]*Term{}
	c.Vars(vs)
	added := []string{}
	for name := range vs {
		if _, ok := in.lastModel[name]; !ok {
			in.lastModel[name] = big.NewInt(0)
			added = append(added, name)
		}
	}
	v, ok := c.Eval(in.lastModel)
	if ok && v.Sign() != 0 {
		return true
	}
	for _, n := range added {
		delete(in.lastModel, n)
	}
	return false
}

func (in *Interp) modelVars(extra *Term) []*Term {
	vs := map[string]*Term{}
	for k, v := range in.pcVars {
		vs[k] = v
	}
	if extra != nil {
		extra.Vars(vs)
	}
	names := make([]string, 0, len(vs))
	for k := range vs {
		names = append(names, k)
	}
	sort.Strings(names)
	out := make([]*Term, len(names))
	for i, n := range names {
		out[i] = vs[n]
	}
	return out
}

// satM checks pc ∧ extra and returns a model of the variables when sat.
func (in *Interp) satM(extra *Term) (bool, map[string]*big.Int) {
	terms := append(append([]*Term{}, in.pc...), extra)
	r, m := in.solver.Check(terms, in.modelVars(extra))
	if r != "sat" && r != "unsat" {
		in.abort("unsupported", "solver: "+r)
	}
	return r == "sat", m
}

func (in *Interp) sat(extra *Term) bool {
	ok, _ := in.satM(extra)
	return ok
}

// evalUnderModel returns (value, known) of boolean c under the last model.
func (in *Interp) evalUnderModel(c *Term) (bool, bool) {
	if in.lastModel == nil {
		return false, false
	}
	vs := map[string]*Term{}
	c.Vars(vs)
	var added []string
	for name := range vs {
		if _, ok := in.lastModel[name]; !ok {
			if _, inpc := in.pcVars[name]; inpc {
				return false, false
			}
			in.lastModel[name] = big.NewInt(0)
			added = append(added, name)
		}
	}
	v, ok := c.Eval(in.lastModel)
	if !ok {
		for _, n := range added {
			delete(in.lastModel, n)
		}
		return false, false
	}
	return v.Sign() != 0, true
}

// branch on a boolean term; returns chosen concrete truth value and extends pc.
func (in *Interp) branch(c *Term) bool {
	if c.IsConst() {
		return c.True()
	}
	var mT, mF map[string]*big.Int
	fresh := false
	v := in.choose(func() []int {
		fresh = true
		val, known := in.evalUnderModel(c)
		var okT, okF bool
		if known {
			in.ModelHits++
			if val {
				okT, mT = true, in.lastModel
				okF, mF = in.satM(Not(c))
			} else {
				okF, mF = true, in.lastModel
				okT, mT = in.satM(c)
			}
		} else {
			okT, mT = in.satM(c)
			if !okT {
				okF = true // pc is satisfiable by invariant
			} else {
				okF, mF = in.satM(Not(c))
			}
		}
		var a []int
		if okT {
			a = append(a, 1)
		}
		if okF {
			a = append(a, 0)
		}
		return a
	})
	var t *Term
	if v == 1 {
		t = c
	} else {
		t = Not(c)
	}
	if fresh {
		if v == 1 {
			in.lastModel = mT
		} else {
			in.lastModel = mF
		}
		in.pc = append(in.pc, t)
		t.Vars(in.pcVars)
	} else {
		in.lastModel = nil
		in.pc = append(in.pc, t)
		t.Vars(in.pcVars)
	}
	return v == 1
}

// concretise an integer term into one of its feasible values in [lo,hi]
func (in *Interp) concretize(t *Term, lo, hi int64, signed bool) int64 {
	if t.IsConst() {
		if signed {
			return t.Int()
		}
		return int64(t.Uint())
	}
	v := in.choose(func() []int {
		var a []int
		// fast path: range fully feasible check is not attempted; query each value
		for x := lo; x <= hi; x++ {
			if in.sat(Eq(t, BVi(t.w, x))) {
				a = append(a, int(x))
			}
			if hi-lo > 64 && len(a) > 64 {
				in.abort("limit", "concretize: more than 64 feasible values")
			}
		}
		return a
	})
	in.addPC(Eq(t, BVi(t.w, int64(v))))
	return int64(v)
}

func (in *Interp) fresh(w int, hint string) *Term {
	in.nfresh++
	return Var(w, fmt.Sprintf("%s!%d", hint, in.nfresh))
}

func (in *Interp) curPath() []int {
	path := make([]int, 0, in.pos)
	for i := 0; i < in.pos && i < len(in.trail); i++ {
		path = append(path, in.trail[i].alts[in.trail[i].idx])
	}
	return path
}

func (in *Interp) finding(kind, label string, extra *Term) {
	for _, f := range in.Findings {
		if f.Kind == kind && f.Label == label {
			f.Count++
			return
		}
	}
	terms := append([]*Term{}, in.pc...)
	if extra != nil {
		terms = append(terms, extra)
	}
	_, m := in.solver.Check(terms, in.nondets)
	f := &Finding{Kind: kind, Label: label, Path: in.curPath(), Count: 1}
	for _, nd := range in.nondets {
		val := "0"
		if v, ok := m[nd.String()]; ok {
			val = v.String()
		}
		f.Nondets = append(f.Nondets, NondetVal{Name: nd.name, Width: nd.w, Val: val})
	}
	in.Findings = append(in.Findings, f)
}

// ---- running
func (in *Interp) RunAll(fn *ssa.Function) {
	in.trail = nil
	for {
		in.Paths++
		if in.cfg.Progress && in.Paths%2000 == 0 {
			fmt.Fprintf(os.Stderr, "progress paths=%d instrs=%d queries=%d solver=%.1fs trail=%d hits=%d\n", in.Paths, in.Instrs, in.solver.Queries, in.solver.Time.Seconds(), len(in.trail), in.ModelHits)
		}
		in.runOnce(fn)
		i := len(in.trail) - 1
		for i >= 0 && in.trail[i].idx+1 >= len(in.trail[i].alts) {
			i--
		}
		if i < 0 {
			return
		}
		in.trail[i].idx++
		in.trail = in.trail[:i+1]
		if in.Paths >= in.cfg.MaxPaths {
			in.Truncated = true
			in.Unsup["limit: max paths"]++
			return
		}
	}
}

func (in *Interp) runOnce(fn *ssa.Function) {
	in.pc = nil
	in.pcVars = map[string]*Term{}
	in.lastModel = map[string]*big.Int{}
	in.pos = 0
	in.nondets = nil
	in.nfresh = 0
	in.globals = map[*ssa.Global]*Loc{}
	in.initDone = map[*ssa.Package]bool{}
	in.hashSeen = nil
	in.uuidStrs = map[*Term]Value{}
	in.bolts = map[*Loc]*boltBucket{}
	in.cursors = map[*Loc]*boltCursor{}
	in.boltDBs = map[*Loc]*boltDB{}
	in.boltTxs = map[*Loc]*boltTx{}
	in.bitsets = map[*Loc]*bitsetObj{}
	in.builders = map[*Loc]*[]*Term{}
	in.timers = map[*Loc]*timerObj{}
	in.fs, in.fsRemoved, in.errNotExist = nil, nil, nil
	in.shardHandles = map[*Loc]*shardHandle{}
	in.files = map[string]*fileObj{}
	in.fileHandles = map[*Loc]*fileHandle{}
	in.hashedContents = nil
	in.envThreads = 0
	in.mapOrderOverride = -1
	in.steps = 0
	in.depth = 0
	in.delaysLeft = 0
	in.freezesLeft = 0
	in.ghost = map[string]Value{}
	in.resetThreads()
	in.ctl = make(chan pathEnd, 1)
	t0 := in.newThread()
	in.cur = t0
	in.live.Add(1)
	go in.threadMain(t0, func() { in.call(fn, nil, nil) })
	t0.wake <- struct{}{}
	ev := <-in.ctl
	in.aborting = true
	for _, t := range in.threads {
		if !t.exited && t != in.cur {
			t.wake <- struct{}{}
		}
	}
	in.live.Wait()
	switch ev.kind {
	case "done":
		in.Completed++
		if in.conc == nil && len(in.EndSamples) < in.cfg.SampleEnds && in.Completed&(in.Completed-1) == 0 {
			if r, m := in.solver.Check(in.pc, in.nondets); r == "sat" {
				vec := make([]uint64, len(in.nondets))
				for i, nd := range in.nondets {
					if v, ok := m[nd.String()]; ok {
						vec[i] = v.Uint64()
					}
				}
				in.EndSamples = append(in.EndSamples, vec)
			}
		}
	case "unsupported", "limit":
		in.Unsup[ev.kind+": "+ev.msg]++
	case "panic":
		if in.conc != nil {
			in.conc.out.Panic = ev.msg
		} else {
			in.finding("panic", ev.msg, nil)
		}
	}
}

func recvPkg(fn *ssa.Function) string {
	t := fn.Signature.Recv().Type()
	if p, ok := t.(*types.Pointer); ok {
		t = p.Elem()
	}
	if n, ok := t.(*types.Named); ok && n.Obj().Pkg() != nil {
		return n.Obj().Pkg().Path()
	}
	return ""
}

func (in *Interp) isRepo(path string) bool { return strings.HasPrefix(path, in.cfg.RepoPfx) }

func (in *Interp) global(g *ssa.Global) *Loc {
	if l, ok := in.globals[g]; ok {
		return l
	}
	if g.Pkg != nil && in.isRepo(g.Pkg.Pkg.Path()) && !in.initDone[g.Pkg] {
		in.runInit(g.Pkg)
		if l, ok := in.globals[g]; ok {
			return l
		}
	}
	elem := g.Type().(*types.Pointer).Elem()
	var l *Loc
	if _, isIface := elem.Underlying().(*types.Interface); isIface && !in.isRepo(g.Pkg.Pkg.Path()) {
		// foreign interface-typed global (e.g. io.EOF): a unique non-nil value; errors get
		// a real *errors.errorString so that Error() and errors.Is work
		if types.Identical(elem, errT()) {
			l = newLoc(in.newErrorString(g.Name()))
		} else {
			l = newLoc(IfaceV{t: types.Typ[types.String], v: OpaqueV{tag: g.String()}})
		}
	} else {
		l = newLoc(zero(elem))
	}
	in.globals[g] = l
	return l
}

func (in *Interp) runInit(p *ssa.Package) {
	if in.initDone[p] {
		return
	}
	in.initDone[p] = true
	if f := p.Func("init"); f != nil {
		in.initEntry = true
		in.call(f, nil, nil)
	}
}

func pkgPathOf(fn *ssa.Function) string {
	for fn.Parent() != nil {
		fn = fn.Parent()
	}
	if fn.Pkg != nil {
		return fn.Pkg.Pkg.Path()
	}
	if o := fn.Origin(); o != nil && o.Pkg != nil {
		return o.Pkg.Pkg.Path()
	}
	if fn.Signature.Recv() != nil {
		return recvPkg(fn)
	}
	return ""
}

func fnName(fn *ssa.Function) string {
	if fn.Origin() != nil {
		return fn.Origin().String()
	}
	return fn.String()
}

func (in *Interp) call(fn *ssa.Function, args []Value, binds []Value) Value {
	name := fnName(fn)
	if st, ok := in.stubs[name]; ok {
		return st(in, fn, args)
	}
	return in.callBodyB(fn, args, binds)
}

// callBody interprets fn from its SSA body (no stub lookup).
func (in *Interp) callBody(fn *ssa.Function, args []Value) Value { return in.callBodyB(fn, args, nil) }

func (in *Interp) callBodyB(fn *ssa.Function, args []Value, binds []Value) Value {
	name := fnName(fn)
	if rd, ok := in.cfg.Redirects[name]; ok {
		if in.HarnessPkg != nil {
			if h := in.HarnessPkg.Func(rd); h != nil {
				return in.call(h, args, nil)
			}
		}
		if fn.Pkg != nil {
			if h := fn.Pkg.Func(rd); h != nil {
				return in.call(h, args, nil)
			}
		}
		in.abort("unsupported", "redirect target not found: "+rd)
	}
	if fn.Name() == "init" && fn.Pkg != nil && fn.Synthetic != "" {
		if !in.isRepo(fn.Pkg.Pkg.Path()) {
			return nil
		}
		if in.initDone[fn.Pkg] && !in.initEntry {
			return nil
		}
		in.initEntry = false
		in.initDone[fn.Pkg] = true
	}
	if fn.Pkg != nil && isNoopPkg(fn.Pkg.Pkg.Path()) || (fn.Pkg == nil && fn.Signature.Recv() != nil && isNoopPkg(recvPkg(fn))) {
		res := fn.Signature.Results()
		switch res.Len() {
		case 0:
			return nil
		case 1:
			return zero(res.At(0).Type())
		}
		return zero(res)
	}
	if fn.Blocks == nil {
		in.abort("unsupported", "no body: "+name)
	}
	if in.isRepo(pkgPathOf(fn)) {
		top := fn
		for top.Parent() != nil {
			top = top.Parent()
		}
		in.Funcs[fnName(top)] = true
	}
	in.depth++
	if in.depth > in.cfg.MaxDepth {
		in.abort("limit", "call depth")
	}
	fr := &Frame{fn: fn, env: map[ssa.Value]Value{}}
	for i, p := range fn.Params {
		fr.env[p] = args[i]
	}
	for i, fv := range fn.FreeVars {
		fr.env[fv] = binds[i]
	}
	ret := in.execFrame(fr)
	in.depth--
	return ret
}

// goPanicState: a Go-level panic (explicit or runtime) unwinding through interpreted frames
// of the current goroutine while their deferred calls run.
type goPanicState struct {
	val       Value
	recovered bool
}

// execFrame runs the frame; a Go panic raised below it runs the frame's pending deferred calls
// and, if one of them recovers, makes the function return through its recover block.
func (in *Interp) execFrame(fr *Frame) (ret Value) {
	depth := in.depth
	defer func() {
		if len(fr.defers) == 0 {
			return // nothing deferred here: the panic keeps unwinding
		}
		r := recover()
		if r == nil {
			return
		}
		pe, ok := r.(pathEnd)
		t := in.cur
		if !ok || pe.kind != "panic" || in.aborting || t == nil {
			panic(r)
		}
		st := &goPanicState{val: t.panicVal}
		t.panicVal = nil
		if st.val == nil {
			st.val = in.newErrorString("runtime error: " + pe.msg)
		}
		prev := t.panicSt
		t.panicSt = st
		defers := fr.defers
		fr.defers = nil
		in.depth = depth
		for i := len(defers) - 1; i >= 0; i-- {
			defers[i]()
		}
		t.panicSt = prev
		if !st.recovered {
			t.panicVal = st.val
			panic(r)
		}
		in.depth = depth
		if fr.fn.Recover != nil {
			ret = in.execAt(fr, fr.fn.Recover)
			return
		}
		res := fr.fn.Signature.Results()
		switch res.Len() {
		case 0:
			ret = nil
		case 1:
			ret = zero(res.At(0).Type())
		default:
			ret = zero(res)
		}
	}()
	return in.exec(fr)
}

func (in *Interp) get(fr *Frame, v ssa.Value) Value {
	switch x := v.(type) {
	case *ssa.Const:
		return in.constVal(x)
	case *ssa.Global:
		return PtrV{loc: in.global(x)}
	case *ssa.Function:
		return FuncV{fn: x}
	case *ssa.Builtin:
		return FuncV{}
	}
	val, ok := fr.env[v]
	if !ok {
		in.abort("unsupported", fmt.Sprintf("unbound value %s in %s", v.Name(), fr.fn))
	}
	return val
}

func (in *Interp) constVal(c *ssa.Const) Value {
	t := c.Type()
	if c.Value == nil {
		return zero(t)
	}
	switch u := t.Underlying().(type) {
	case *types.Basic:
		switch {
		case u.Info()&types.IsBoolean != 0:
			return Bool(constant.BoolVal(c.Value))
		case u.Info()&types.IsString != 0:
			return strConst(constant.StringVal(c.Value))
		case u.Info()&types.IsFloat != 0:
			f, _ := constant.Float64Val(constant.ToFloat(c.Value))
			w, _ := intWidth(u)
			if w == 32 {
				return BVu(32, uint64(math.Float32bits(float32(f))))
			}
			return BVu(64, math.Float64bits(f))
		case u.Info()&types.IsInteger != 0:
			w, _ := intWidth(u)
			bi, ok := new(big.Int).SetString(constant.ToInt(c.Value).ExactString(), 10)
			if !ok {
				in.abort("unsupported", "const int")
			}
			return BV(w, bi)
		}
	}
	in.abort("unsupported", "const of type "+t.String())
	return nil
}

func strConst(s string) StrV {
	b := make([]*Term, len(s))
	for i := 0; i < len(s); i++ {
		b[i] = BVu(8, uint64(s[i]))
	}
	return StrV{b}
}

func (s StrV) concrete() (string, bool) {
	bs := make([]byte, len(s.b))
	for i, t := range s.b {
		if !t.IsConst() {
			return "", false
		}
		bs[i] = byte(t.Uint())
	}
	return string(bs), true
}

func (in *Interp) exec(fr *Frame) Value { return in.execAt(fr, fr.fn.Blocks[0]) }

func (in *Interp) execAt(fr *Frame, block *ssa.BasicBlock) Value {
	var prev *ssa.BasicBlock
	for {
		// phis of a block are evaluated in parallel: read all, then assign
		nphi := 0
		var vals []Value
		for _, pi := range block.Instrs {
			ph, ok := pi.(*ssa.Phi)
			if !ok {
				break
			}
			found := false
			for i, p := range block.Preds {
				if p == prev {
					vals = append(vals, in.get(fr, ph.Edges[i]))
					found = true
					break
				}
			}
			if !found {
				in.abort("unsupported", "phi without matching predecessor in "+fr.fn.String())
			}
			nphi++
		}
		for i := 0; i < nphi; i++ {
			fr.env[block.Instrs[i].(*ssa.Phi)] = vals[i]
		}
		in.Instrs += int64(nphi)
		var nb *ssa.BasicBlock
		for _, ins := range block.Instrs[nphi:] {
			in.Instrs++
			in.steps++
			if in.steps > in.cfg.MaxSteps {
				in.abort("limit", "steps")
			}
			r, done, b := in.step(fr, block, ins, &prev)
			if done {
				return r
			}
			if b != nil {
				nb = b
				break
			}
		}
		if nb == nil {
			in.abort("unsupported", "block fell through in "+fr.fn.String())
		}
		block = nb
	}
}

// step executes one non-phi instruction. It returns (result, true, nil) on
// Return, (nil,false,next) on a control transfer, (nil,false,nil) otherwise.
func (in *Interp) step(fr *Frame, block *ssa.BasicBlock, ins ssa.Instruction, prev **ssa.BasicBlock) (Value, bool, *ssa.BasicBlock) {
	switch x := ins.(type) {
	case *ssa.If:
		c := in.get(fr, x.Cond).(*Term)
		*prev = block
		if !c.IsConst() {
			if fr.visits == nil {
				fr.visits = map[*ssa.BasicBlock]int{}
			}
			fr.visits[block]++
			if fr.visits[block] > in.cfg.Unwind {
				in.abort("limit", "unwind bound reached in "+fr.fn.String())
			}
		}
		if in.branch(c) {
			return nil, false, block.Succs[0]
		}
		return nil, false, block.Succs[1]
	case *ssa.Jump:
		*prev = block
		return nil, false, block.Succs[0]
	case *ssa.Return:
		var ret Value
		switch len(x.Results) {
		case 0:
		case 1:
			ret = in.get(fr, x.Results[0])
		default:
			e := make([]Value, len(x.Results))
			for i, r := range x.Results {
				e[i] = in.get(fr, r)
			}
			ret = TupleV{e}
		}
		return ret, true, nil
	case *ssa.RunDefers:
		for i := len(fr.defers) - 1; i >= 0; i-- {
			fr.defers[i]()
		}
		fr.defers = nil
	case *ssa.Panic:
		if in.cur != nil {
			in.cur.panicVal = in.get(fr, x.X)
		}
		in.abort("panic", "explicit panic in "+fr.fn.String())
	case *ssa.Store:
		p := in.get(fr, x.Addr).(PtrV)
		if p.loc == nil {
			in.abort("panic", "nil store in "+fr.fn.String())
		}
		store(p.loc, in.get(fr, x.Val))
	case *ssa.MapUpdate:
		m := in.get(fr, x.Map).(MapV)
		if m.m == nil {
			in.abort("panic", "assignment to nil map in "+fr.fn.String())
		}
		in.mapSet(m.m, in.get(fr, x.Key), in.get(fr, x.Value))
	case *ssa.Defer:
		fv, args := in.prepCall(fr, &x.Call)
		cc := &x.Call
		fr.defers = append(fr.defers, func() { in.doCall(fr, cc, fv, args) })
	case *ssa.Send:
		ch := in.get(fr, x.Chan).(ChanV).c
		if ch == nil {
			in.blockUntil(func() bool { return false })
		}
		in.chanOp([]offer{{ch: ch, send: true, val: in.get(fr, x.X)}}, false)
	case *ssa.Go:
		fv, args := in.prepCall(fr, &x.Call)
		in.spawnCall(fr, &x.Call, fv, args)
		in.schedule(true)
	case *ssa.DebugRef:
	case ssa.Value:
		fr.env[x] = in.eval(fr, x)
	default:
		in.abort("unsupported", fmt.Sprintf("instr %T", ins))
	}
	return nil, false, nil
}

func (in *Interp) eval(fr *Frame, v ssa.Value) Value {
	switch x := v.(type) {
	case *ssa.Alloc:
		return PtrV{loc: newLoc(zero(x.Type().(*types.Pointer).Elem()))}
	case *ssa.BinOp:
		return in.binop(x.Op, in.get(fr, x.X), in.get(fr, x.Y), x.X.Type(), x.Y.Type())
	case *ssa.UnOp:
		if x.Op == token.ARROW {
			return in.execRecv(fr, x)
		}
		a := in.get(fr, x.X)
		switch x.Op {
		case token.MUL:
			p := a.(PtrV)
			if p.loc == nil {
				in.abort("panic", "nil dereference in "+fr.fn.String())
			}
			return load(p.loc, x.Type())
		case token.NOT:
			return Not(a.(*Term))
		case token.SUB:
			t := a.(*Term)
			if isFloat(x.Type()) {
				return BinBV("bvxor", t, BV(t.w, new(big.Int).Lsh(one, uint(t.w-1))))
			}
			return NegBV(t)
		case token.XOR:
			return NotBV(a.(*Term))
		}
		in.abort("unsupported", "unop "+x.Op.String())
	case *ssa.Call:
		fv, args := in.prepCall(fr, &x.Call)
		return in.doCall(fr, &x.Call, fv, args)
	case *ssa.ChangeType:
		return in.get(fr, x.X)
	case *ssa.ChangeInterface:
		return in.get(fr, x.X)
	case *ssa.MakeInterface:
		return IfaceV{t: x.X.Type(), v: in.get(fr, x.X)}
	case *ssa.MakeClosure:
		b := make([]Value, len(x.Bindings))
		for i, bv := range x.Bindings {
			b[i] = in.get(fr, bv)
		}
		return FuncV{fn: x.Fn.(*ssa.Function), binds: b}
	case *ssa.MakeMap:
		return MapV{&MapObj{floatKey: isFloat(x.Type().Underlying().(*types.Map).Key())}}
	case *ssa.MakeChan:
		n := int(in.concretize(in.get(fr, x.Size).(*Term), 0, 64, true))
		return ChanV{&ChanObj{cap: n}}
	case *ssa.Select:
		return in.execSelect(fr, x)
	case *ssa.MakeSlice:
		mk := func(t *Term) int {
			if t.IsConst() {
				if t.Int() < 0 {
					in.abort("panic", "makeslice: len out of range in "+fr.fn.String())
				}
				return int(t.Int())
			}
			// symbolic size: negative is a checked panic, sizes above 64 are outside the executor's bound
			if in.branch(CmpBV("bvslt", t, BVi(t.w, 0))) {
				in.abort("panic", "makeslice: len out of range in "+fr.fn.String())
			}
			if !in.branch(CmpBV("bvsle", t, BVi(t.w, 64))) {
				in.abort("limit", "make with a symbolic size above 64")
			}
			return int(in.concretize(t, 0, 64, true))
		}
		n := mk(in.get(fr, x.Len).(*Term))
		c := mk(in.get(fr, x.Cap).(*Term))
		et := x.Type().Underlying().(*types.Slice).Elem()
		arr := make([]*Loc, c)
		for i := range arr {
			arr[i] = newLoc(zero(et))
		}
		return SliceV{arr: arr, n: n, cp: c}
	case *ssa.Convert:
		return in.convert(in.get(fr, x.X), x.X.Type(), x.Type())
	case *ssa.FieldAddr:
		p := in.get(fr, x.X).(PtrV)
		if p.loc == nil {
			in.abort("panic", "nil field access in "+fr.fn.String())
		}
		return PtrV{loc: p.loc.sub[x.Field]}
	case *ssa.Field:
		return in.get(fr, x.X).(StructV).f[x.Field]
	case *ssa.IndexAddr:
		base := in.get(fr, x.X)
		idx := in.get(fr, x.Index).(*Term)
		switch b := base.(type) {
		case PtrV:
			if b.loc == nil {
				in.abort("panic", "nil array pointer")
			}
			i := in.index(idx, len(b.loc.sub), x.Index.Type(), fr)
			return PtrV{loc: b.loc.sub[i], arr: b.loc.sub, idx: i}
		case SliceV:
			i := in.index(idx, b.n, x.Index.Type(), fr)
			return PtrV{loc: b.arr[b.off+i], arr: b.arr[:b.off+b.cp], idx: b.off + i}
		}
		in.abort("unsupported", fmt.Sprintf("indexaddr base %T", base))
	case *ssa.Index:
		base := in.get(fr, x.X)
		idx := in.get(fr, x.Index).(*Term)
		switch b := base.(type) {
		case ArrayV:
			return b.e[in.index(idx, len(b.e), x.Index.Type(), fr)]
		case StrV:
			return b.b[in.index(idx, len(b.b), x.Index.Type(), fr)]
		}
		in.abort("unsupported", fmt.Sprintf("index base %T", base))
	case *ssa.Lookup:
		base := in.get(fr, x.X)
		switch b := base.(type) {
		case StrV:
			idx := in.get(fr, x.Index).(*Term)
			return b.b[in.index(idx, len(b.b), x.Index.Type(), fr)]
		case MapV:
			vt := x.X.Type().Underlying().(*types.Map).Elem()
			val, ok := in.mapGet(b.m, in.get(fr, x.Index))
			if !ok {
				val = zero(vt)
			}
			if x.CommaOk {
				return TupleV{[]Value{val, Bool(ok)}}
			}
			return val
		}
		in.abort("unsupported", fmt.Sprintf("lookup base %T", base))
	case *ssa.Slice:
		return in.slice(fr, x)
	case *ssa.SliceToArrayPointer:
		s := in.get(fr, x.X).(SliceV)
		n := int(x.Type().(*types.Pointer).Elem().Underlying().(*types.Array).Len())
		if s.n < n {
			in.abort("panic", "slice to array pointer: length too small in "+fr.fn.String())
		}
		return PtrV{loc: &Loc{sub: s.arr[s.off : s.off+n]}}
	case *ssa.Extract:
		return in.get(fr, x.Tuple).(TupleV).e[x.Index]
	case *ssa.TypeAssert:
		return in.typeAssert(fr, x)
	case *ssa.Range:
		base := in.get(fr, x.X)
		switch b := base.(type) {
		case StrV:
			return &IterV{str: b}
		case MapV:
			it := &IterV{isMap: true, m: b.m}
			if b.m != nil {
				n := len(b.m.keys)
				remaining := make([]int, n)
				for i := range remaining {
					remaining[i] = i
				}
				for len(remaining) > 0 {
					k := 0
					if len(remaining) > 1 && n <= in.mapOrderMax() {
						r := remaining
						k = in.choose(func() []int {
							a := make([]int, len(r))
							for i := range a {
								a[i] = i
							}
							return a
						})
					}
					it.order = append(it.order, remaining[k])
					remaining = append(append([]int{}, remaining[:k]...), remaining[k+1:]...)
				}
				// snapshot: Go permits mutation during iteration; entries deleted later are
				// skipped by looking them up by identity at Next time.
				it.keys = append([]Value{}, b.m.keys...)
			}
			return it
		}
		in.abort("unsupported", "range over "+fmt.Sprintf("%T", base))
	case *ssa.Next:
		it := in.get(fr, x.Iter).(*IterV)
		if it.isMap {
			for it.pos < len(it.order) {
				i := it.order[it.pos]
				it.pos++
				k := it.keys[i]
				// find the key (by object identity of the stored key value) in the live map
				for j, lk := range it.m.keys {
					if sameKeyObj(lk, k) {
						return TupleV{[]Value{Bool(true), lk, it.m.vals[j]}}
					}
				}
			}
			return TupleV{[]Value{Bool(false), nil, nil}}
		}
		if it.pos >= len(it.str.b) {
			return TupleV{[]Value{Bool(false), BVu(64, 0), BVu(32, 0)}}
		}
		c := it.str.b[it.pos]
		if !(c.IsConst() && c.Uint() < 0x80) {
			// ASCII only: a non-ASCII byte here is outside the encodable domain
			if !in.branch(CmpBV("bvult", c, BVu(8, 0x80))) {
				in.abort("unsupported", "range over string with non-ASCII byte")
			}
		}
		r := TupleV{[]Value{Bool(true), BVu(64, uint64(it.pos)), ZeroExt(c, 32)}}
		it.pos++
		return r
	}
	in.abort("unsupported", fmt.Sprintf("value instr %T", v))
	return nil
}

// sameKeyObj: identity of map key values as stored (terms are pointers, strings compare by term pointers).
func sameKeyObj(a, b Value) bool {
	switch x := a.(type) {
	case *Term:
		y, ok := b.(*Term)
		return ok && (x == y || (x.IsConst() && y.IsConst() && x.c.Cmp(y.c) == 0 && x.w == y.w))
	case StrV:
		y, ok := b.(StrV)
		if !ok || len(x.b) != len(y.b) {
			return false
		}
		for i := range x.b {
			if !sameKeyObj(x.b[i], y.b[i]) {
				return false
			}
		}
		return true
	case ArrayV:
		y, ok := b.(ArrayV)
		if !ok || len(x.e) != len(y.e) {
			return false
		}
		for i := range x.e {
			if !sameKeyObj(x.e[i], y.e[i]) {
				return false
			}
		}
		return true
	case StructV:
		y, ok := b.(StructV)
		if !ok || len(x.f) != len(y.f) {
			return false
		}
		for i := range x.f {
			if !sameKeyObj(x.f[i], y.f[i]) {
				return false
			}
		}
		return true
	case PtrV:
		y, ok := b.(PtrV)
		return ok && x.loc == y.loc
	case IfaceV:
		y, ok := b.(IfaceV)
		if !ok {
			return false
		}
		if x.t == nil || y.t == nil {
			return x.t == nil && y.t == nil
		}
		return types.Identical(x.t, y.t) && sameKeyObj(x.v, y.v)
	case OpaqueV:
		y, ok := b.(OpaqueV)
		return ok && x == y
	}
	return false
}

func (in *Interp) index(idx *Term, n int, it types.Type, fr *Frame) int {
	w := idx.w
	if idx.IsConst() {
		var i int64
		if isSigned(it) {
			i = idx.Int()
		} else {
			i = int64(idx.Uint())
		}
		if i < 0 || i >= int64(n) {
			in.abort("panic", fmt.Sprintf("index out of range [%d] with length %d in %s", i, n, fr.fn))
		}
		return int(i)
	}
	inr := CmpBV("bvult", idx, BVu(w, uint64(n)))
	if !in.branch(inr) {
		in.abort("panic", fmt.Sprintf("index out of range (symbolic) with length %d in %s", n, fr.fn))
	}
	return int(in.concretize(idx, 0, int64(n-1), false))
}

func (in *Interp) slice(fr *Frame, x *ssa.Slice) Value {
	base := in.get(fr, x.X)
	getI := func(v ssa.Value, def int) int {
		if v == nil {
			return def
		}
		t := in.get(fr, v).(*Term)
		if t.IsConst() {
			return int(t.Int())
		}
		// symbolic bound: out-of-range is a checked panic, in-range values are case-split
		capv := 0
		switch b := base.(type) {
		case SliceV:
			capv = b.cp
		case StrV:
			capv = len(b.b)
		case PtrV:
			capv = len(b.loc.sub)
		}
		if !in.branch(CmpBV("bvule", t, BVu(t.w, uint64(capv)))) {
			in.abort("panic", fmt.Sprintf("slice bounds out of range (symbolic) cap %d in %s", capv, fr.fn))
		}
		return int(in.concretize(t, 0, int64(capv), true))
	}
	switch b := base.(type) {
	case SliceV:
		lo := getI(x.Low, 0)
		hi := getI(x.High, b.n)
		mx := getI(x.Max, b.cp)
		if lo < 0 || hi < lo || hi > b.cp || mx > b.cp || mx < hi {
			in.abort("panic", fmt.Sprintf("slice bounds out of range [%d:%d] cap %d in %s", lo, hi, b.cp, fr.fn))
		}
		if b.isNil && lo == 0 && hi == 0 {
			return b
		}
		return SliceV{arr: b.arr, off: b.off + lo, n: hi - lo, cp: mx - lo}
	case StrV:
		lo := getI(x.Low, 0)
		hi := getI(x.High, len(b.b))
		if lo < 0 || hi < lo || hi > len(b.b) {
			in.abort("panic", "string slice bounds in "+fr.fn.String())
		}
		return StrV{b.b[lo:hi]}
	case PtrV:
		n := len(b.loc.sub)
		lo := getI(x.Low, 0)
		hi := getI(x.High, n)
		mx := getI(x.Max, n)
		if lo < 0 || hi < lo || hi > n || mx > n {
			in.abort("panic", "array slice bounds in "+fr.fn.String())
		}
		return SliceV{arr: b.loc.sub, off: lo, n: hi - lo, cp: mx - lo}
	}
	in.abort("unsupported", fmt.Sprintf("slice of %T", base))
	return nil
}

func (in *Interp) typeAssert(fr *Frame, x *ssa.TypeAssert) Value {
	iv := in.get(fr, x.X).(IfaceV)
	var ok bool
	var res Value
	if ai, isI := x.AssertedType.Underlying().(*types.Interface); isI {
		if iv.t != nil {
			if _, isCtx := iv.v.(*CtxObj); isCtx {
				ok = true
			} else {
				ok = types.Implements(iv.t, ai)
			}
		}
		res = iv
		if !ok {
			res = IfaceV{}
		}
	} else {
		ok = iv.t != nil && types.Identical(iv.t, x.AssertedType)
		if ok {
			res = iv.v
		} else {
			res = zero(x.AssertedType)
		}
	}
	if x.CommaOk {
		return TupleV{[]Value{res, Bool(ok)}}
	}
	if !ok {
		in.abort("panic", "type assertion failed in "+fr.fn.String())
	}
	return res
}

// ---- maps with possibly symbolic keys
func (in *Interp) valEq(a, b Value) *Term {
	switch x := a.(type) {
	case *Term:
		y, ok := b.(*Term)
		if !ok {
			in.abort("unsupported", fmt.Sprintf("equality %T vs %T", a, b))
		}
		return Eq(x, y)
	case StrV:
		y := b.(StrV)
		if len(x.b) != len(y.b) {
			return Bool(false)
		}
		r := Bool(true)
		for i := range x.b {
			r = And(r, Eq(x.b[i], y.b[i]))
		}
		return r
	case ArrayV:
		y := b.(ArrayV)
		r := Bool(true)
		for i := range x.e {
			r = And(r, in.valEq(x.e[i], y.e[i]))
		}
		return r
	case StructV:
		y := b.(StructV)
		r := Bool(true)
		for i := range x.f {
			r = And(r, in.valEq(x.f[i], y.f[i]))
		}
		return r
	case PtrV:
		y, ok := b.(PtrV)
		return Bool(ok && x.loc == y.loc)
	case ChanV:
		y, ok := b.(ChanV)
		return Bool(ok && x.c == y.c)
	case IfaceV:
		y := b.(IfaceV)
		if x.t == nil || y.t == nil {
			return Bool(x.t == nil && y.t == nil)
		}
		if !types.Identical(x.t, y.t) {
			return Bool(false)
		}
		return in.valEq(x.v, y.v)
	case OpaqueV:
		y, ok := b.(OpaqueV)
		return Bool(ok && x == y)
	case *CtxObj:
		y, ok := b.(*CtxObj)
		return Bool(ok && x == y)
	case nil:
		return Bool(b == nil)
	}
	in.abort("unsupported", fmt.Sprintf("equality on %T", a))
	return nil
}

func (in *Interp) mapFind(m *MapObj, k Value) int {
	for i, ek := range m.keys {
		var eq *Term
		if m.floatKey {
			eq = FCmp("fp.eq", ek.(*Term), k.(*Term)) // Go map semantics: -0 == +0, NaN never found
		} else {
			eq = in.valEq(ek, k)
		}
		if in.branch(eq) {
			return i
		}
	}
	return -1
}
func (in *Interp) mapGet(m *MapObj, k Value) (Value, bool) {
	if m == nil {
		return nil, false
	}
	i := in.mapFind(m, k)
	if i < 0 {
		return nil, false
	}
	return m.vals[i], true
}
func (in *Interp) mapSet(m *MapObj, k, v Value) {
	i := in.mapFind(m, k)
	if i >= 0 {
		m.vals[i] = v
		return
	}
	m.keys = append(m.keys, k)
	m.vals = append(m.vals, v)
}
func (in *Interp) mapDelete(m *MapObj, k Value) {
	if m == nil {
		return
	}
	i := in.mapFind(m, k)
	if i >= 0 {
		m.keys = append(append([]Value{}, m.keys[:i]...), m.keys[i+1:]...)
		m.vals = append(append([]Value{}, m.vals[:i]...), m.vals[i+1:]...)
	}
}
