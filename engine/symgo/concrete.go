package symgo

import (
	"fmt"

	"golang.org/x/tools/go/ssa"
)

// Concrete mode: the nondet intrinsics hand out the constants of a given input
// vector, so every term folds and the executor behaves as a plain interpreter.
// It is used for translator validation: the same vectors are run through the
// natively compiled harness and the outcomes are compared.
type concState struct {
	vec []uint64
	pos int
	out *ConcreteOutcome
}

func (in *Interp) concNext() uint64 {
	c := in.conc
	if c.pos >= len(c.vec) {
		c.pos++
		return 0
	}
	v := c.vec[c.pos]
	c.pos++
	return v
}

func (in *Interp) RunConcrete(fn *ssa.Function, vec []uint64) ConcreteOutcome {
	out := ConcreteOutcome{Fails: []string{}, Obs: []string{}}
	in.conc = &concState{vec: vec, out: &out}
	in.trail = nil
	in.Paths++
	nUnsup := len(in.Unsup)
	before := map[string]int{}
	for k, v := range in.Unsup {
		before[k] = v
	}
	in.runOnce(fn)
	if len(in.Unsup) != nUnsup {
		for k := range in.Unsup {
			if before[k] != in.Unsup[k] {
				out.Unsupported = k
			}
		}
	} else {
		for k, v := range in.Unsup {
			if before[k] != v {
				out.Unsupported = k
			}
		}
	}
	in.conc = nil
	return out
}

func fmtObs(label string, v *Term) string {
	if v.IsConst() {
		return fmt.Sprintf("%s=%s", label, v.c.String())
	}
	return label + "=<symbolic>"
}
