package symgo

import (
	"fmt"
	"math"
	"go/types"
	"strings"

	"golang.org/x/tools/go/ssa"
)

func (in *Interp) prepCall(fr *Frame, c *ssa.CallCommon) (Value, []Value) {
	args := make([]Value, len(c.Args))
	for i, a := range c.Args {
		args[i] = in.get(fr, a)
	}
	if c.IsInvoke() {
		return in.get(fr, c.Value), args
	}
	if _, ok := c.Value.(*ssa.Builtin); ok {
		return nil, args
	}
	return in.get(fr, c.Value), args
}

func (in *Interp) doCall(fr *Frame, c *ssa.CallCommon, fv Value, args []Value) Value {
	if c.IsInvoke() {
		iv := fv.(IfaceV)
		if co, ok := iv.v.(*CtxObj); ok {
			return in.ctxMethod(co, c.Method.Name(), args)
		}
		if iv.t == nil && c.Method.Pkg() != nil && isNoopPkg(c.Method.Pkg().Path()) {
			// value handed out by a no-op library (metrics, logging): its methods do nothing
			res := c.Signature().Results()
			switch res.Len() {
			case 0:
				return nil
			case 1:
				return zero(res.At(0).Type())
			}
			return zero(res)
		}
		if iv.t == nil {
			in.abort("panic", "nil interface method call in "+fr.fn.String())
		}
		if in.prog.MethodSets.MethodSet(iv.t).Lookup(c.Method.Pkg(), c.Method.Name()) == nil {
			in.abort("unsupported", "no method "+c.Method.Name()+" on "+iv.t.String())
		}
		m := in.prog.LookupMethod(iv.t, c.Method.Pkg(), c.Method.Name())
		if m == nil {
			in.abort("unsupported", "method lookup "+c.Method.Name()+" on "+iv.t.String())
		}
		return in.call(m, append([]Value{iv.v}, args...), nil)
	}
	if b, ok := c.Value.(*ssa.Builtin); ok {
		return in.builtin(fr, b, c, args)
	}
	f := fv.(FuncV)
	if f.native != nil {
		return f.native(in, args)
	}
	if f.fn == nil {
		in.abort("panic", "nil func call in "+fr.fn.String())
	}
	if h, ok := in.intrinsics[f.fn.Name()]; ok && f.fn.Pkg != nil && in.isRepo(f.fn.Pkg.Pkg.Path()) {
		return h(in, args)
	}
	return in.call(f.fn, args, f.binds)
}

func (in *Interp) builtin(fr *Frame, b *ssa.Builtin, c *ssa.CallCommon, args []Value) Value {
	switch b.Name() {
	case "len":
		switch x := args[0].(type) {
		case SliceV:
			if x.symLen != nil {
				return x.symLen
			}
			return BVi(64, int64(x.n))
		case StrV:
			return BVi(64, int64(len(x.b)))
		case MapV:
			if x.m == nil {
				return BVi(64, 0)
			}
			return BVi(64, int64(len(x.m.keys)))
		case ArrayV:
			return BVi(64, int64(len(x.e)))
		case PtrV:
			return BVi(64, int64(len(x.loc.sub)))
		}
	case "cap":
		switch x := args[0].(type) {
		case SliceV:
			return BVi(64, int64(x.cp))
		}
	case "append":
		s := args[0].(SliceV)
		var add []Value
		switch t := args[1].(type) {
		case SliceV:
			et := c.Args[1].Type().Underlying().(*types.Slice).Elem()
			for i := 0; i < t.n; i++ {
				add = append(add, load(t.arr[t.off+i], et))
			}
		case StrV:
			for _, ch := range t.b {
				add = append(add, ch)
			}
		}
		if len(add) == 0 {
			return s
		}
		if s.n+len(add) <= s.cp {
			for i, v := range add {
				store(s.arr[s.off+s.n+i], v)
			}
			return SliceV{arr: s.arr, off: s.off, n: s.n + len(add), cp: s.cp}
		}
		et := c.Args[0].Type().Underlying().(*types.Slice).Elem()
		ncap := s.n + len(add)
		if ncap < 2*s.cp {
			ncap = 2 * s.cp
		}
		arr := make([]*Loc, ncap)
		for i := 0; i < s.n; i++ {
			arr[i] = newLoc(load(s.arr[s.off+i], et))
		}
		for i, v := range add {
			arr[s.n+i] = newLoc(v)
		}
		for i := s.n + len(add); i < ncap; i++ {
			arr[i] = newLoc(zero(et))
		}
		return SliceV{arr: arr, n: s.n + len(add), cp: ncap}
	case "copy":
		d := args[0].(SliceV)
		n := d.n
		switch t := args[1].(type) {
		case SliceV:
			if t.n < n {
				n = t.n
			}
			et := c.Args[0].Type().Underlying().(*types.Slice).Elem()
			tmp := make([]Value, n)
			for i := 0; i < n; i++ {
				tmp[i] = load(t.arr[t.off+i], et)
			}
			for i := 0; i < n; i++ {
				store(d.arr[d.off+i], tmp[i])
			}
		case StrV:
			if len(t.b) < n {
				n = len(t.b)
			}
			for i := 0; i < n; i++ {
				store(d.arr[d.off+i], t.b[i])
			}
		}
		return BVi(64, int64(n))
	case "close":
		in.closeChan(args[0].(ChanV).c)
		return nil
	case "delete":
		in.mapDelete(args[0].(MapV).m, args[1])
		return nil
	case "min", "max":
		r := args[0].(*Term)
		signed := isSigned(c.Args[0].Type())
		for _, a := range args[1:] {
			y := a.(*Term)
			var lt *Term
			if signed {
				lt = CmpBV("bvslt", y, r)
			} else {
				lt = CmpBV("bvult", y, r)
			}
			if b.Name() == "max" {
				lt = Not(lt)
				lt = And(lt, Not(Eq(y, r)))
			}
			r = Ite(lt, y, r)
		}
		return r
	case "Slice": // unsafe.Slice(ptr, n)
		p := args[0].(PtrV)
		n := int(in.concretize(args[1].(*Term), 0, 1<<20, true))
		et := c.Signature().Results().At(0).Type().Underlying().(*types.Slice).Elem()
		vw := widthOf(et)
		if n == 0 {
			return SliceV{}
		}
		if p.loc == nil {
			in.abort("panic", "unsafe.Slice: nil pointer with non-zero length")
		}
		if p.arr == nil {
			in.abort("unsupported", "unsafe.Slice on a pointer that is not an element pointer")
		}
		bt, ok := p.arr[p.idx].get().(*Term)
		if !ok || vw == 0 {
			in.abort("unsupported", "unsafe.Slice over non-scalar cells")
		}
		bw := bt.w
		base := p.arr[p.idx:]
		if bw == vw {
			if n > len(base) {
				in.abort("panic", "unsafe.Slice: length exceeds the underlying allocation")
			}
			return SliceV{arr: base, n: n, cp: n}
		}
		if n*vw > len(base)*bw {
			in.abort("panic", "unsafe.Slice: view exceeds the underlying allocation (out-of-bounds memory)")
		}
		arr := make([]*Loc, n)
		for i := range arr {
			arr[i] = &Loc{view: &viewCell{base: base, bw: bw, vw: vw, idx: i}}
		}
		return SliceV{arr: arr, n: n, cp: n}
	case "ssa:wrapnilchk":
		return args[0]
	case "recover":
		if t := in.cur; t != nil && t.panicSt != nil && !t.panicSt.recovered {
			t.panicSt.recovered = true
			return t.panicSt.val
		}
		return IfaceV{}
	case "print", "println":
		return nil
	}
	in.abort("unsupported", "builtin "+b.Name())
	return nil
}

// ---- intrinsics recognised by bare function name (harness runtime)
func (in *Interp) newNondet(w int, hint string) *Term {
	if in.conc != nil {
		v := in.concNext()
		if w == 0 {
			return Bool(v&1 != 0)
		}
		return BVu(w, v)
	}
	t := Var(w, fmt.Sprintf("nd%d_%s", len(in.nondets), hint))
	in.nondets = append(in.nondets, t)
	return t
}

func (in *Interp) installIntrinsics() {
	I := map[string]func(in *Interp, args []Value) Value{}
	in.intrinsics = I
	nd := func(w int, hint string) func(in *Interp, args []Value) Value {
		return func(in *Interp, args []Value) Value { return in.newNondet(w, hint) }
	}
	I["nondetInt64"] = nd(64, "i64")
	I["nondetUint64"] = nd(64, "u64")
	I["nondetFloat64"] = nd(64, "f64")
	I["nondetFloat32"] = nd(32, "f32")
	I["nondetByte"] = nd(8, "u8")
	I["nondetInt"] = nd(64, "int")
	I["nondetUint32"] = nd(32, "u32")
	I["nondetBool"] = nd(0, "b")
	I["nondetIntRange"] = func(in *Interp, args []Value) Value {
		lo, hi := args[0].(*Term).Int(), args[1].(*Term).Int()
		t := in.newNondet(64, "rng")
		if lo > hi {
			in.abort("infeasible", "empty nondetIntRange")
		}
		if in.conc != nil {
			n := uint64(hi-lo) + 1
			return BVi(64, lo+int64((t.Uint()-uint64(lo))%n))
		}
		in.addPC(And(CmpBV("bvsle", BVi(64, lo), t), CmpBV("bvsle", t, BVi(64, hi))))
		v := in.concretize(t, lo, hi, true)
		return BVi(64, v)
	}
	I["nondetBytes"] = func(in *Interp, args []Value) Value {
		n := int(args[0].(*Term).Int())
		arr := make([]*Loc, n)
		for i := range arr {
			arr[i] = &Loc{v: in.newNondet(8, "u8")}
		}
		return SliceV{arr: arr, n: n, cp: n}
	}
	I["nondetOpaqueBytes"] = func(in *Interp, args []Value) Value {
		mx := args[0].(*Term).Int()
		t := in.newNondet(64, "len")
		if in.conc != nil {
			n := int(t.Uint() % uint64(mx+1))
			arr := make([]*Loc, n)
			for i := range arr {
				arr[i] = &Loc{v: BVu(8, 0)}
			}
			return SliceV{arr: arr, n: n, cp: n}
		}
		in.addPC(CmpBV("bvule", t, BVi(64, mx)))
		return SliceV{symLen: t}
	}
	I["nondetString"] = func(in *Interp, args []Value) Value {
		n := int(args[0].(*Term).Int())
		b := make([]*Term, n)
		for i := range b {
			b[i] = in.newNondet(8, "u8")
		}
		return StrV{b}
	}
	I["vassume"] = func(in *Interp, args []Value) Value {
		c := args[0].(*Term)
		if c.IsConst() {
			if !c.True() {
				if in.conc != nil {
					in.conc.out.AssumeFailed = true
				}
				in.abort("infeasible", "assume false")
			}
			return nil
		}
		if v, known := in.evalUnderModel(c); known && v {
			in.ModelHits++
			in.addPC(c)
			return nil
		}
		ok, m := in.satM(c)
		if !ok {
			in.abort("infeasible", "assume")
		}
		in.pc = append(in.pc, c)
		c.Vars(in.pcVars)
		in.lastModel = m
		return nil
	}
	I["vassert"] = func(in *Interp, args []Value) Value {
		label, _ := args[0].(StrV).concrete()
		c := args[1].(*Term)
		in.Asserts++
		if c.IsConst() {
			if !c.True() {
				if in.conc != nil {
					in.conc.out.Fails = append(in.conc.out.Fails, label)
					in.abort("infeasible", "assert failed concretely")
				}
				in.finding("assert", label, nil)
				in.abort("infeasible", "assert failed concretely")
			}
			return nil
		}
		if v, known := in.evalUnderModel(c); known && !v {
			in.finding("assert", label, Not(c))
		} else if in.sat(Not(c)) {
			in.finding("assert", label, Not(c))
		} else {
			// assertion holds on every extension of this path: c is implied by pc
			in.pc = append(in.pc, c)
			c.Vars(in.pcVars)
			return nil
		}
		ok, m := in.satM(c)
		if !ok {
			in.abort("infeasible", "assert always fails here")
		}
		in.pc = append(in.pc, c)
		c.Vars(in.pcVars)
		in.lastModel = m
		return nil
	}
	I["vsched"] = func(in *Interp, args []Value) Value {
		in.delaysLeft = int(args[0].(*Term).Int())
		in.freezesLeft = in.delaysLeft
		return nil
	}
	I["vyield"] = func(in *Interp, args []Value) Value {
		in.schedule(true)
		return nil
	}
	I["vcover"] = func(in *Interp, args []Value) Value {
		label, _ := args[0].(StrV).concrete()
		in.Covers[label]++
		if _, ok := in.CoverSamples[label]; !ok && in.conc == nil {
			if r, m := in.solver.Check(in.pc, in.nondets); r == "sat" {
				var vals []NondetVal
				for _, nd := range in.nondets {
					val := "0"
					if v, ok := m[nd.String()]; ok {
						val = v.String()
					}
					vals = append(vals, NondetVal{Name: nd.name, Width: nd.w, Val: val})
				}
				in.CoverSamples[label] = vals
			}
		}
		return nil
	}
	I["vparam"] = func(in *Interp, args []Value) Value {
		name, _ := args[0].(StrV).concrete()
		if v, ok := in.cfg.Params[name]; ok {
			return BVi(64, v)
		}
		return args[1]
	}
	I["vlocksheld"] = func(in *Interp, args []Value) Value {
		return BVi(64, int64(in.locksHeld()))
	}
	I["vobserve"] = func(in *Interp, args []Value) Value {
		label, _ := args[0].(StrV).concrete()
		if in.conc != nil {
			in.conc.out.Obs = append(in.conc.out.Obs, fmtObs(label, args[1].(*Term)))
		}
		return nil
	}
	I["vmaporder"] = func(in *Interp, args []Value) Value {
		in.mapOrderOverride = int(args[0].(*Term).Int())
		return nil
	}
	I["vsymbolic"] = func(in *Interp, args []Value) Value { return Bool(true) }
}

// ---- stubs for functions without (usable) bodies
func (in *Interp) installStubs() {
	in.stubs = map[string]func(in *Interp, fn *ssa.Function, args []Value) Value{}
	in.installConcStubs()
	in.installCtxStubs()
	in.installLibStubs()
	in.installReflectStubs()
	in.installBoltStubs()
	in.installBitsetStubs()
	in.installStringStubs()
	in.installEnvStubs()
	in.installFileStubs()
	// errors: errors.New runs from its own SSA (it is &errorString{text}); fmt.Errorf builds a
	// *fmt.wrapError (when %w wraps an error) or *errors.errorString with an opaque message.
	in.stubs["fmt.Errorf"] = func(in *Interp, fn *ssa.Function, args []Value) Value {
		format, _ := args[0].(StrV).concrete()
		va := args[1].(SliceV)
		var wrapped Value
		if strings.Contains(format, "%w") {
			for i := 0; i < va.n; i++ {
				if iv, ok := va.arr[va.off+i].get().(IfaceV); ok && iv.t != nil && types.Implements(iv.t, errT().Underlying().(*types.Interface)) {
					wrapped = iv
				}
			}
		}
		msg := strConst("<formatted error>")
		if wrapped != nil {
			if p := in.prog.ImportedPackage("fmt"); p != nil && p.Type("wrapError") != nil {
				l := newLoc(StructV{[]Value{msg, wrapped}})
				return IfaceV{t: types.NewPointer(p.Type("wrapError").Type()), v: PtrV{loc: l}}
			}
		}
		return in.newErrorString("<formatted error>")
	}
	in.stubs["errors.Is"] = func(in *Interp, fn *ssa.Function, args []Value) Value {
		err, target := args[0].(IfaceV), args[1].(IfaceV)
		for depth := 0; depth < 16; depth++ {
			if err.t == nil {
				return Bool(target.t == nil)
			}
			if target.t != nil && types.Identical(err.t, target.t) {
				eq := in.valEq(err.v, target.v)
				if in.branch(eq) {
					return Bool(true)
				}
			}
			u := in.hasMethod(err.t, "Unwrap")
			if u == nil || u.Signature.Results().Len() != 1 {
				return Bool(false)
			}
			if _, isI := u.Signature.Results().At(0).Type().Underlying().(*types.Interface); !isI {
				return Bool(false)
			}
			err = in.call(u, []Value{err.v}, nil).(IfaceV)
		}
		in.abort("limit", "errors.Is chain depth")
		return nil
	}
	for _, name := range []string{"Log10", "Sqrt", "Log", "Sin", "Cos", "Asin", "Abs", "Floor", "Ceil"} {
		name := name
		in.stubs["math."+name] = func(in *Interp, fn *ssa.Function, args []Value) Value {
			x := args[0].(*Term)
			if x.IsConst() {
				f := math.Float64frombits(x.Uint())
				var r float64
				switch name {
				case "Log10":
					r = math.Log10(f)
				case "Sqrt":
					r = math.Sqrt(f)
				case "Log":
					r = math.Log(f)
				case "Sin":
					r = math.Sin(f)
				case "Cos":
					r = math.Cos(f)
				case "Asin":
					r = math.Asin(f)
				case "Abs":
					r = math.Abs(f)
				case "Floor":
					r = math.Floor(f)
				case "Ceil":
					r = math.Ceil(f)
				}
				return BVu(64, math.Float64bits(r))
			}
			if name == "Abs" {
				return BinBV("bvand", x, BVu(64, 0x7fffffffffffffff))
			}
			return UF("math_"+name, 64, x) // transcendental functions are uninterpreted on symbolic arguments
		}
	}
	// randomness: a fixed value (the entry node's random vector is irrelevant to every property; where
	// randomness matters a harness injects its own nondet)
	in.stubs["math/rand/v2.Float32"] = func(in *Interp, fn *ssa.Function, args []Value) Value {
		return BVu(32, uint64(math.Float32bits(0.25)))
	}
	in.stubs["math/rand/v2.Float64"] = func(in *Interp, fn *ssa.Function, args []Value) Value {
		return BVu(64, math.Float64bits(0.25))
	}
	in.stubs["runtime.NumCPU"] = func(in *Interp, fn *ssa.Function, args []Value) Value {
		if n, ok := in.cfg.Params["NUMCPU"]; ok {
			return BVi(64, int64(n))
		}
		return BVi(64, 2)
	}
	in.stubs["runtime.Gosched"] = func(in *Interp, fn *ssa.Function, args []Value) Value { in.schedule(true); return nil }
	in.stubs["time.Now"] = func(in *Interp, fn *ssa.Function, args []Value) Value { return zero(fn.Signature.Results().At(0).Type()) }
	in.stubs["math.Float64bits"] = func(in *Interp, fn *ssa.Function, args []Value) Value { return args[0] }
	in.stubs["math.Float64frombits"] = func(in *Interp, fn *ssa.Function, args []Value) Value { return args[0] }
	in.stubs["math.Float32bits"] = func(in *Interp, fn *ssa.Function, args []Value) Value { return args[0] }
	in.stubs["math.Float32frombits"] = func(in *Interp, fn *ssa.Function, args []Value) Value { return args[0] }
	in.stubs["internal/bytealg.Compare"] = func(in *Interp, fn *ssa.Function, args []Value) Value {
		a, b := sliceBytes(args[0].(SliceV)), sliceBytes(args[1].(SliceV))
		return cmpBytesTerm(a, b)
	}
	in.stubs["internal/bytealg.Equal"] = func(in *Interp, fn *ssa.Function, args []Value) Value {
		a, b := sliceBytes(args[0].(SliceV)), sliceBytes(args[1].(SliceV))
		return in.valEq(StrV{a}, StrV{b})
	}
	// xxhash: uninterpreted function of the (concrete) byte string; distinct strings get
	// distinct symbolic scores (no 64-bit collisions assumed). Streaming digests accumulate
	// the concrete bytes written since New/Reset.
	in.stubs["github.com/cespare/xxhash.Sum64String"] = func(in *Interp, fn *ssa.Function, args []Value) Value {
		s, ok := args[0].(StrV).concrete()
		if !ok {
			in.abort("unsupported", "xxhash of symbolic string")
		}
		return in.hashOf(s)
	}
	in.stubs["github.com/cespare/xxhash.Sum64"] = func(in *Interp, fn *ssa.Function, args []Value) Value {
		s, ok := StrV{sliceBytes(args[0].(SliceV))}.concrete()
		if !ok {
			in.abort("unsupported", "xxhash of symbolic bytes")
		}
		return in.hashOf(s)
	}
	in.stubs["github.com/cespare/xxhash.New"] = func(in *Interp, fn *ssa.Function, args []Value) Value {
		pkg := in.prog.ImportedPackage("github.com/cespare/xxhash")
		if pkg == nil || pkg.Type("xxh") == nil {
			in.abort("unsupported", "xxhash.xxh type not found")
		}
		l := &Loc{v: StrV{}}
		return IfaceV{t: types.NewPointer(pkg.Type("xxh").Type()), v: PtrV{loc: l}}
	}
	in.stubs["(*github.com/cespare/xxhash.xxh).Write"] = func(in *Interp, fn *ssa.Function, args []Value) Value {
		l := args[0].(PtrV).loc
		cur := l.v.(StrV)
		add := sliceBytes(args[1].(SliceV))
		l.v = StrV{append(append([]*Term{}, cur.b...), add...)}
		return TupleV{[]Value{BVi(64, int64(len(add))), IfaceV{}}}
	}
	in.stubs["(*github.com/cespare/xxhash.xxh).Reset"] = func(in *Interp, fn *ssa.Function, args []Value) Value {
		args[0].(PtrV).loc.v = StrV{}
		return nil
	}
	in.stubs["(*github.com/cespare/xxhash.xxh).Sum64"] = func(in *Interp, fn *ssa.Function, args []Value) Value {
		s, ok := args[0].(PtrV).loc.v.(StrV).concrete()
		if !ok {
			in.abort("unsupported", "xxhash of symbolic bytes")
		}
		return in.hashOf(s)
	}
}

func (in *Interp) hashOf(s string) *Term {
	name := "H_" + hexName(s)
	t := Var(64, name)
	seen := false
	for _, o := range in.hashSeen {
		if o == name {
			seen = true
		}
	}
	if !seen {
		for _, other := range in.hashSeen {
			in.addPC(Not(Eq(t, Var(64, other))))
		}
		in.hashSeen = append(in.hashSeen, name)
	}
	return t
}

// newErrorString builds an *errors.errorString value.
func (in *Interp) newErrorString(msg string) Value {
	p := in.prog.ImportedPackage("errors")
	if p == nil || p.Type("errorString") == nil {
		in.abort("unsupported", "errors.errorString type not found")
	}
	l := newLoc(StructV{[]Value{strConst(msg)}})
	return IfaceV{t: types.NewPointer(p.Type("errorString").Type()), v: PtrV{loc: l}}
}

func (in *Interp) hasMethod(t types.Type, name string) *ssa.Function {
	ms := in.prog.MethodSets.MethodSet(t)
	for i := 0; i < ms.Len(); i++ {
		if ms.At(i).Obj().Name() == name {
			return in.prog.MethodValue(ms.At(i))
		}
	}
	return nil
}

func hexName(s string) string {
	var sb strings.Builder
	for i := 0; i < len(s); i++ {
		c := s[i]
		if (c >= 'a' && c <= 'z') || (c >= 'A' && c <= 'Z') || (c >= '0' && c <= '9') {
			sb.WriteByte(c)
		} else {
			sb.WriteString(fmt.Sprintf("_%02x", c))
		}
	}
	return sb.String()
}

func sliceBytes(s SliceV) []*Term {
	b := make([]*Term, s.n)
	for i := 0; i < s.n; i++ {
		b[i] = s.arr[s.off+i].get().(*Term)
	}
	return b
}
