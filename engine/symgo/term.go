package symgo

import (
	"fmt"
	"math"
	"math/big"
	"strings"
)

// Sorts: Bool (w==0) or BitVec(w).
type Term struct {
	w    int // 0 = Bool, else bitvector width
	op   string
	args []*Term
	c    *big.Int // constant value (unsigned for BV; 0/1 for Bool), nil if not constant
	name string
	str  string
	ip   []int // integer params (extract hi lo, extend n)
}

func (t *Term) IsConst() bool { return t.c != nil }
func (t *Term) IsBool() bool  { return t.w == 0 }

var one = big.NewInt(1)

func mask(w int) *big.Int { m := new(big.Int).Lsh(one, uint(w)); return m.Sub(m, one) }

func BV(w int, v *big.Int) *Term {
	x := new(big.Int).And(v, mask(w))
	return &Term{w: w, op: "const", c: x}
}
func BVu(w int, v uint64) *Term { return BV(w, new(big.Int).SetUint64(v)) }
func BVi(w int, v int64) *Term  { return BV(w, big.NewInt(v)) }
func Bool(b bool) *Term {
	if b {
		return &Term{w: 0, op: "const", c: big.NewInt(1)}
	}
	return &Term{w: 0, op: "const", c: big.NewInt(0)}
}
func Var(w int, name string) *Term { return &Term{w: w, op: "var", name: name} }

func (t *Term) Uint() uint64 { return t.c.Uint64() }
func (t *Term) Int() int64 { // signed interpretation
	v := new(big.Int).Set(t.c)
	if t.w > 0 && v.Bit(t.w-1) == 1 {
		v.Sub(v, new(big.Int).Lsh(one, uint(t.w)))
	}
	return v.Int64()
}
func (t *Term) signed() *big.Int {
	v := new(big.Int).Set(t.c)
	if t.w > 0 && v.Bit(t.w-1) == 1 {
		v.Sub(v, new(big.Int).Lsh(one, uint(t.w)))
	}
	return v
}
func (t *Term) True() bool { return t.c.Sign() != 0 }

func (t *Term) String() string {
	if t.str != "" {
		return t.str
	}
	var s string
	switch t.op {
	case "const":
		if t.w == 0 {
			if t.c.Sign() != 0 {
				s = "true"
			} else {
				s = "false"
			}
		} else {
			s = fmt.Sprintf("(_ bv%s %d)", t.c.String(), t.w)
		}
	case "var":
		s = t.name
	case "uf":
		var sb strings.Builder
		sb.WriteString("(")
		sb.WriteString(t.name)
		for _, a := range t.args {
			sb.WriteString(" ")
			sb.WriteString(a.String())
		}
		sb.WriteString(")")
		s = sb.String()
	case "extract":
		s = fmt.Sprintf("((_ extract %d %d) %s)", t.ip[0], t.ip[1], t.args[0])
	case "zero_extend", "sign_extend":
		s = fmt.Sprintf("((_ %s %d) %s)", t.op, t.ip[0], t.args[0])
	default:
		var sb strings.Builder
		sb.WriteString("(")
		sb.WriteString(t.op)
		for _, a := range t.args {
			sb.WriteString(" ")
			sb.WriteString(a.String())
		}
		sb.WriteString(")")
		s = sb.String()
	}
	t.str = s
	return s
}

func mk(w int, op string, args ...*Term) *Term { return &Term{w: w, op: op, args: args} }

func allConst(args ...*Term) bool {
	for _, a := range args {
		if a.c == nil {
			return false
		}
	}
	return true
}

// ---- boolean
func Not(a *Term) *Term {
	if a.IsConst() {
		return Bool(!a.True())
	}
	if a.op == "not" {
		return a.args[0]
	}
	return mk(0, "not", a)
}
func And(a, b *Term) *Term {
	if a.IsConst() {
		if a.True() {
			return b
		}
		return a
	}
	if b.IsConst() {
		if b.True() {
			return a
		}
		return b
	}
	return mk(0, "and", a, b)
}
func Or(a, b *Term) *Term {
	if a.IsConst() {
		if a.True() {
			return a
		}
		return b
	}
	if b.IsConst() {
		if b.True() {
			return b
		}
		return a
	}
	return mk(0, "or", a, b)
}
func Eq(a, b *Term) *Term {
	if allConst(a, b) {
		return Bool(a.c.Cmp(b.c) == 0)
	}
	if a == b {
		return Bool(true)
	}
	return mk(0, "=", a, b)
}
func Ite(c, a, b *Term) *Term {
	if c.IsConst() {
		if c.True() {
			return a
		}
		return b
	}
	return mk(a.w, "ite", c, a, b)
}

// ---- bitvector arithmetic with folding
func BinBV(op string, a, b *Term) *Term {
	w := a.w
	if allConst(a, b) {
		r := new(big.Int)
		switch op {
		case "bvadd":
			r.Add(a.c, b.c)
		case "bvsub":
			r.Sub(a.c, b.c)
		case "bvmul":
			r.Mul(a.c, b.c)
		case "bvand":
			r.And(a.c, b.c)
		case "bvor":
			r.Or(a.c, b.c)
		case "bvxor":
			r.Xor(a.c, b.c)
		case "bvshl":
			if b.c.Cmp(big.NewInt(int64(w))) >= 0 {
				r.SetInt64(0)
			} else {
				r.Lsh(a.c, uint(b.c.Uint64()))
			}
		case "bvlshr":
			if b.c.Cmp(big.NewInt(int64(w))) >= 0 {
				r.SetInt64(0)
			} else {
				r.Rsh(a.c, uint(b.c.Uint64()))
			}
		case "bvashr":
			sa := a.signed()
			sh := uint(w)
			if b.c.Cmp(big.NewInt(int64(w))) < 0 {
				sh = uint(b.c.Uint64())
			}
			r.Rsh(sa, sh)
		case "bvudiv":
			if b.c.Sign() == 0 {
				return mk(w, op, a, b)
			}
			r.Quo(a.c, b.c)
		case "bvurem":
			if b.c.Sign() == 0 {
				return mk(w, op, a, b)
			}
			r.Rem(a.c, b.c)
		case "bvsdiv":
			if b.c.Sign() == 0 {
				return mk(w, op, a, b)
			}
			r.Quo(a.signed(), b.signed())
		case "bvsrem":
			if b.c.Sign() == 0 {
				return mk(w, op, a, b)
			}
			r.Rem(a.signed(), b.signed())
		default:
			panic("fold " + op)
		}
		r.And(r, mask(w))
		if r.Sign() < 0 {
			r.Add(r, new(big.Int).Lsh(one, uint(w)))
		}
		return BV(w, r)
	}
	// light identities
	switch op {
	case "bvor", "bvxor", "bvadd":
		if a.IsConst() && a.c.Sign() == 0 {
			return b
		}
		if b.IsConst() && b.c.Sign() == 0 {
			return a
		}
	case "bvshl", "bvlshr", "bvsub":
		if b.IsConst() && b.c.Sign() == 0 {
			return a
		}
	}
	return mk(w, op, a, b)
}
func CmpBV(op string, a, b *Term) *Term {
	if allConst(a, b) {
		var r bool
		switch op {
		case "bvult":
			r = a.c.Cmp(b.c) < 0
		case "bvule":
			r = a.c.Cmp(b.c) <= 0
		case "bvslt":
			r = a.signed().Cmp(b.signed()) < 0
		case "bvsle":
			r = a.signed().Cmp(b.signed()) <= 0
		}
		return Bool(r)
	}
	return mk(0, op, a, b)
}
func NotBV(a *Term) *Term {
	if a.IsConst() {
		return BV(a.w, new(big.Int).Xor(a.c, mask(a.w)))
	}
	return mk(a.w, "bvnot", a)
}
func NegBV(a *Term) *Term {
	if a.IsConst() {
		return BV(a.w, new(big.Int).Neg(a.c))
	}
	return mk(a.w, "bvneg", a)
}
func Extract(hi, lo int, a *Term) *Term {
	w := hi - lo + 1
	if w == a.w {
		return a
	}
	if a.IsConst() {
		return BV(w, new(big.Int).Rsh(a.c, uint(lo)))
	}
	// extract of concat / extends: simple peephole
	if a.op == "concat" {
		lw := a.args[1].w
		if hi < lw {
			return Extract(hi, lo, a.args[1])
		}
		if lo >= lw {
			return Extract(hi-lw, lo-lw, a.args[0])
		}
	}
	if a.op == "zero_extend" || a.op == "sign_extend" {
		if hi < a.args[0].w {
			return Extract(hi, lo, a.args[0])
		}
	}
	t := mk(w, "extract", a)
	t.ip = []int{hi, lo}
	return t
}
func Concat(hiT, loT *Term) *Term {
	if allConst(hiT, loT) {
		v := new(big.Int).Lsh(hiT.c, uint(loT.w))
		v.Or(v, loT.c)
		return BV(hiT.w+loT.w, v)
	}
	// concat(extract(h,m+1,x), extract(m,l,x)) = extract(h,l,x)
	if hiT.op == "extract" && loT.op == "extract" && hiT.args[0] == loT.args[0] && hiT.ip[1] == loT.ip[0]+1 {
		return Extract(hiT.ip[0], loT.ip[1], hiT.args[0])
	}
	return mk(hiT.w+loT.w, "concat", hiT, loT)
}
func ZeroExt(a *Term, to int) *Term {
	if to == a.w {
		return a
	}
	if a.IsConst() {
		return BV(to, a.c)
	}
	t := mk(to, "zero_extend", a)
	t.ip = []int{to - a.w}
	return t
}
func SignExt(a *Term, to int) *Term {
	if to == a.w {
		return a
	}
	if a.IsConst() {
		return BV(to, a.signed())
	}
	t := mk(to, "sign_extend", a)
	t.ip = []int{to - a.w}
	return t
}
func Resize(a *Term, to int, signed bool) *Term {
	if to < a.w {
		return Extract(to-1, 0, a)
	}
	if signed {
		return SignExt(a, to)
	}
	return ZeroExt(a, to)
}

// ---- floats carried as bits
func fpSort(w int) string {
	if w == 32 {
		return "8 24"
	}
	return "11 53"
}
func toFP(a *Term) *Term { // opaque FP-sorted term for printing only
	return &Term{w: -a.w, op: "(_ to_fp " + fpSort(a.w) + ")", args: []*Term{a}}
}
func fval(a *Term) float64 {
	if a.w == 32 {
		return float64(math.Float32frombits(uint32(a.c.Uint64())))
	}
	return math.Float64frombits(a.c.Uint64())
}
func FCmp(op string, a, b *Term) *Term { // op in fp.lt fp.leq fp.gt fp.geq fp.eq
	if allConst(a, b) {
		x, y := fval(a), fval(b)
		var r bool
		switch op {
		case "fp.lt":
			r = x < y
		case "fp.leq":
			r = x <= y
		case "fp.gt":
			r = x > y
		case "fp.geq":
			r = x >= y
		case "fp.eq":
			r = x == y
		}
		return Bool(r)
	}
	return mk(0, op, toFP(a), toFP(b))
}

// UF builds an application of an uninterpreted function (declared on first use).
func UF(name string, w int, args ...*Term) *Term {
	return &Term{w: w, op: "uf", name: name, args: args}
}

// Raw builds a term printed verbatim; deps lists the sub-terms that must be declared.
func Raw(w int, s string, deps ...*Term) *Term {
	return &Term{w: w, op: "raw", str: s, args: deps}
}

// Eval evaluates t under a (partial) model of its variables. ok=false when the
// term uses something the evaluator does not implement (FP, UF, raw) or a
// variable without a value.
func (t *Term) Eval(m map[string]*big.Int) (*big.Int, bool) {
	if t.c != nil {
		return t.c, true
	}
	switch t.op {
	case "var":
		v, ok := m[t.name]
		return v, ok
	case "not":
		a, ok := t.args[0].Eval(m)
		if !ok {
			return nil, false
		}
		if a.Sign() != 0 {
			return big.NewInt(0), true
		}
		return big.NewInt(1), true
	case "and", "or":
		a, ok := t.args[0].Eval(m)
		if !ok {
			return nil, false
		}
		b, ok := t.args[1].Eval(m)
		if !ok {
			return nil, false
		}
		r := false
		if t.op == "and" {
			r = a.Sign() != 0 && b.Sign() != 0
		} else {
			r = a.Sign() != 0 || b.Sign() != 0
		}
		if r {
			return big.NewInt(1), true
		}
		return big.NewInt(0), true
	case "=":
		if t.args[0].w < 0 {
			return nil, false
		}
		a, ok := t.args[0].Eval(m)
		if !ok {
			return nil, false
		}
		b, ok := t.args[1].Eval(m)
		if !ok {
			return nil, false
		}
		if a.Cmp(b) == 0 {
			return big.NewInt(1), true
		}
		return big.NewInt(0), true
	case "ite":
		c, ok := t.args[0].Eval(m)
		if !ok {
			return nil, false
		}
		if c.Sign() != 0 {
			return t.args[1].Eval(m)
		}
		return t.args[2].Eval(m)
	case "bvult", "bvule", "bvslt", "bvsle":
		a, ok := t.args[0].Eval(m)
		if !ok {
			return nil, false
		}
		b, ok := t.args[1].Eval(m)
		if !ok {
			return nil, false
		}
		r := CmpBV(t.op, BV(t.args[0].w, a), BV(t.args[1].w, b))
		return r.c, true
	case "bvadd", "bvsub", "bvmul", "bvand", "bvor", "bvxor", "bvshl", "bvlshr", "bvashr", "bvudiv", "bvurem", "bvsdiv", "bvsrem":
		a, ok := t.args[0].Eval(m)
		if !ok {
			return nil, false
		}
		b, ok := t.args[1].Eval(m)
		if !ok {
			return nil, false
		}
		r := BinBV(t.op, BV(t.w, a), BV(t.w, b))
		if r.c == nil {
			return nil, false
		}
		return r.c, true
	case "bvnot":
		a, ok := t.args[0].Eval(m)
		if !ok {
			return nil, false
		}
		return NotBV(BV(t.w, a)).c, true
	case "bvneg":
		a, ok := t.args[0].Eval(m)
		if !ok {
			return nil, false
		}
		return NegBV(BV(t.w, a)).c, true
	case "extract":
		a, ok := t.args[0].Eval(m)
		if !ok {
			return nil, false
		}
		return Extract(t.ip[0], t.ip[1], BV(t.args[0].w, a)).c, true
	case "concat":
		a, ok := t.args[0].Eval(m)
		if !ok {
			return nil, false
		}
		b, ok := t.args[1].Eval(m)
		if !ok {
			return nil, false
		}
		return Concat(BV(t.args[0].w, a), BV(t.args[1].w, b)).c, true
	case "zero_extend":
		a, ok := t.args[0].Eval(m)
		if !ok {
			return nil, false
		}
		return a, true
	case "sign_extend":
		a, ok := t.args[0].Eval(m)
		if !ok {
			return nil, false
		}
		return SignExt(BV(t.args[0].w, a), t.w).c, true
	case "fp.lt", "fp.leq", "fp.gt", "fp.geq", "fp.eq":
		x, y := t.args[0], t.args[1]
		if len(x.args) != 1 || len(y.args) != 1 {
			return nil, false
		}
		a, ok := x.args[0].Eval(m)
		if !ok {
			return nil, false
		}
		b, ok := y.args[0].Eval(m)
		if !ok {
			return nil, false
		}
		return FCmp(t.op, BV(x.args[0].w, a), BV(y.args[0].w, b)).c, true
	}
	return nil, false
}

// Vars collects the names of the free variables of t into set.
func (t *Term) Vars(set map[string]*Term) {
	if t.op == "var" {
		set[t.name] = t
		return
	}
	for _, a := range t.args {
		a.Vars(set)
	}
}
