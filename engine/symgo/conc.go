package symgo

import (
	"fmt"
	"go/types"
	"os"
	"runtime/debug"
	"strings"

	"golang.org/x/tools/go/ssa"
)

// Simulated goroutines are host goroutines; exactly one holds the baton
// (in.cur) and runs. A path ends when the baton holder sends one pathEnd event
// to the controller (runOnce), which then unwinds every parked thread.
type Thread struct {
	id      int
	wake    chan struct{}
	done    bool
	exited  bool
	enabled func() bool // nil = enabled
	daemon  bool        // environment thread (timer): never counts as a blocked participant
	panicVal Value         // value of the Go panic being raised (explicit panics)
	panicSt  *goPanicState // set while deferred calls run during a panic
	frozen   bool          // freeze regime: not scheduled while any other thread can run
}

type mutexState struct {
	locked        bool
	writer        bool
	readers       int
	writerWaiting int
}

func (in *Interp) resetThreads() {
	in.threads = nil
	in.cur = nil
	in.aborting = false
	in.preempts = 0
	in.mutexes = map[*Loc]*mutexState{}
	in.docs = map[*Loc]Value{}
	in.sets = map[*Loc]*SetObj{}
	in.decs = map[*Loc]Value{}
	in.wgs = map[*Loc]*int{}
	in.onces = map[*Loc]bool{}
}

func (in *Interp) newThread() *Thread {
	t := &Thread{id: len(in.threads), wake: make(chan struct{})}
	in.threads = append(in.threads, t)
	return t
}

func (in *Interp) threadMain(t *Thread, body func()) {
	defer in.live.Done()
	<-t.wake
	if in.aborting {
		t.exited = true
		return
	}
	var end *pathEnd
	func() {
		defer func() {
			if r := recover(); r != nil {
				pe, ok := r.(pathEnd)
				if !ok {
					// engine fault: report as unsupported so the obligation is inconclusive
					if os.Getenv("VERIF_DEBUG") != "" {
						fmt.Fprintf(os.Stderr, "engine panic: %v\n%s\n", r, debug.Stack())
					}
					pe = pathEnd{"unsupported", fmt.Sprintf("engine panic: %v", r)}
				}
				end = &pe
			}
		}()
		body()
		t.done = true
		in.schedule(false) // hand the baton on; returns only by panic(pathEnd) or after waking another thread
	}()
	t.done = true
	t.exited = true
	if end != nil && end.kind != "abortSignal" && end.kind != "handedOver" {
		in.ctl <- *end
	}
}

func (in *Interp) waitBaton(t *Thread) {
	<-t.wake
	if in.aborting {
		panic(pathEnd{"abortSignal", ""})
	}
}

func (in *Interp) isEnabled(t *Thread) bool {
	return !t.done && !t.frozen && (t.enabled == nil || t.enabled())
}

// schedule is called by the baton holder at a visible operation. curCan says
// whether the current thread could continue. It returns when the current
// thread holds the baton again.
func (in *Interp) schedule(curCan bool) {
	cur := in.cur
	// freeze regime: the current thread may stall here until nobody else can run (at most
	// freezesLeft times per path) - "one goroutine is slow"
	if in.cfg.FreezeMode && in.freezesLeft > 0 && curCan && !cur.done && !cur.frozen {
		others := false
		for _, t := range in.threads {
			if t != cur && in.isEnabled(t) && !t.daemon {
				others = true
			}
		}
		if others && in.choose(func() []int { return []int{0, 1} }) == 1 {
			in.freezesLeft--
			cur.frozen = true
		}
	}
	curRunnable := curCan && !cur.done && !cur.frozen
	var en []int
	if curRunnable {
		en = append(en, cur.id)
	}
	for _, t := range in.threads {
		if t != cur && in.isEnabled(t) {
			en = append(en, t.id)
		}
	}
	if len(en) == 0 {
		// everybody else is blocked or done: stalled threads move again
		thawed := false
		for _, t := range in.threads {
			if t.frozen {
				t.frozen = false
				thawed = true
			}
		}
		if thawed {
			curRunnable = curCan && !cur.done
			if curRunnable {
				en = append(en, cur.id)
			}
			for _, t := range in.threads {
				if t != cur && in.isEnabled(t) {
					en = append(en, t.id)
				}
			}
		}
	}
	if len(en) == 0 {
		alive := 0
		for _, t := range in.threads {
			if !t.done && !t.daemon {
				alive++
			}
		}
		if alive == 0 {
			panic(pathEnd{"done", ""})
		}
		if in.threads[0].done && !in.cfg.LeakCheck {
			// harness returned; remaining goroutines are blocked forever (e.g. waiting on a ticker)
			in.Covers["blocked-goroutines-at-exit"]++
			panic(pathEnd{"done", "leak"})
		}
		in.finding("deadlock", fmt.Sprintf("%d goroutines blocked, none enabled", alive), nil)
		panic(pathEnd{"infeasible", "deadlock"})
	}
	next := en[0]
	if in.cfg.DelayMode || in.cfg.FreezeMode {
		start := 0
		if curRunnable {
			start = 1
		}
		var after, before []int
		for _, id := range en[start:] {
			if id > cur.id {
				after = append(after, id)
			} else {
				before = append(before, id)
			}
		}
		en = append(en[:start:start], append(after, before...)...)
		next = en[0]
		if in.cfg.DelayMode && in.delaysLeft > 0 && len(en) > 1 {
			mx := in.delaysLeft
			if mx > len(en)-1 {
				mx = len(en) - 1
			}
			k := in.choose(func() []int {
				a := make([]int, mx+1)
				for i := range a {
					a[i] = i
				}
				return a
			})
			in.delaysLeft -= k
			next = en[k]
		}
	} else {
		if curRunnable && in.preempts >= in.cfg.MaxPreempt {
			en = en[:1]
		}
		if len(en) > 1 && !(in.cfg.DetSched && !curRunnable) && !(in.cfg.DetSched && in.cfg.MaxPreempt == 0) {
			alts := en
			next = in.choose(func() []int { return alts })
		}
	}
	if next == cur.id {
		return
	}
	if curRunnable {
		in.preempts++
	}
	nt := in.threads[next]
	in.cur = nt
	if cur.done {
		cur.exited = true
		nt.wake <- struct{}{}
		panic(pathEnd{"handedOver", ""})
	}
	nt.wake <- struct{}{}
	in.waitBaton(cur)
}

// block until pred holds
func (in *Interp) blockUntil(pred func() bool) {
	for !pred() {
		in.cur.enabled = pred
		in.schedule(false)
		in.cur.enabled = nil
	}
}

func (in *Interp) spawnDaemon(body func()) {
	t := in.newThread()
	t.daemon = true
	in.live.Add(1)
	go in.threadMain(t, body)
}

func (in *Interp) spawn(body func()) {
	t := in.newThread()
	in.live.Add(1)
	go in.threadMain(t, body)
}

func (in *Interp) spawnCall(fr *Frame, c *ssa.CallCommon, fv Value, args []Value) {
	in.spawn(func() { in.doCall(fr, c, fv, args) })
}

func (in *Interp) mutex(l *Loc) *mutexState {
	m, ok := in.mutexes[l]
	if !ok {
		m = &mutexState{}
		in.mutexes[l] = m
	}
	return m
}

// LocksHeld reports whether any modelled mutex is currently held (used by harness intrinsic vlocksfree).
func (in *Interp) locksHeld() int {
	n := 0
	for _, m := range in.mutexes {
		if m.locked || m.writer || m.readers > 0 {
			n++
		}
	}
	return n
}

func (in *Interp) installConcStubs() {
	S := in.stubs
	S["(*sync.Mutex).Lock"] = func(in *Interp, fn *ssa.Function, a []Value) Value {
		m := in.mutex(a[0].(PtrV).loc)
		in.schedule(true)
		in.blockUntil(func() bool { return !m.locked })
		m.locked = true
		return nil
	}
	S["(*sync.Mutex).TryLock"] = func(in *Interp, fn *ssa.Function, a []Value) Value {
		m := in.mutex(a[0].(PtrV).loc)
		in.schedule(true)
		if m.locked {
			return Bool(false)
		}
		m.locked = true
		return Bool(true)
	}
	S["(*sync.Mutex).Unlock"] = func(in *Interp, fn *ssa.Function, a []Value) Value {
		m := in.mutex(a[0].(PtrV).loc)
		if !m.locked {
			in.abort("panic", "unlock of unlocked mutex")
		}
		m.locked = false
		in.schedule(true)
		return nil
	}
	S["(*sync.RWMutex).Lock"] = func(in *Interp, fn *ssa.Function, a []Value) Value {
		m := in.mutex(a[0].(PtrV).loc)
		in.schedule(true)
		if m.writer || m.readers > 0 {
			m.writerWaiting++
			in.blockUntil(func() bool { return !m.writer && m.readers == 0 })
			m.writerWaiting--
		}
		m.writer = true
		return nil
	}
	S["(*sync.RWMutex).Unlock"] = func(in *Interp, fn *ssa.Function, a []Value) Value {
		m := in.mutex(a[0].(PtrV).loc)
		if !m.writer {
			in.abort("panic", "unlock of unlocked RWMutex")
		}
		m.writer = false
		in.schedule(true)
		return nil
	}
	S["(*sync.RWMutex).RLock"] = func(in *Interp, fn *ssa.Function, a []Value) Value {
		m := in.mutex(a[0].(PtrV).loc)
		in.schedule(true)
		in.blockUntil(func() bool { return !m.writer && m.writerWaiting == 0 })
		m.readers++
		return nil
	}
	S["(*sync.RWMutex).TryRLock"] = func(in *Interp, fn *ssa.Function, a []Value) Value {
		m := in.mutex(a[0].(PtrV).loc)
		in.schedule(true)
		if m.writer || m.writerWaiting > 0 {
			return Bool(false)
		}
		m.readers++
		return Bool(true)
	}
	S["(*sync.RWMutex).TryLock"] = func(in *Interp, fn *ssa.Function, a []Value) Value {
		m := in.mutex(a[0].(PtrV).loc)
		in.schedule(true)
		if m.writer || m.readers > 0 {
			return Bool(false)
		}
		m.writer = true
		return Bool(true)
	}
	S["(*sync.RWMutex).RUnlock"] = func(in *Interp, fn *ssa.Function, a []Value) Value {
		m := in.mutex(a[0].(PtrV).loc)
		if m.readers <= 0 {
			in.abort("panic", "RUnlock of unlocked RWMutex")
		}
		m.readers--
		in.schedule(true)
		return nil
	}
	wg := func(in *Interp, l *Loc) *int {
		p, ok := in.wgs[l]
		if !ok {
			p = new(int)
			in.wgs[l] = p
		}
		return p
	}
	S["(*sync.WaitGroup).Add"] = func(in *Interp, fn *ssa.Function, a []Value) Value {
		*wg(in, a[0].(PtrV).loc) += int(a[1].(*Term).Int())
		return nil
	}
	S["(*sync.WaitGroup).Done"] = func(in *Interp, fn *ssa.Function, a []Value) Value {
		p := wg(in, a[0].(PtrV).loc)
		*p -= 1
		if *p < 0 {
			in.abort("panic", "negative WaitGroup counter")
		}
		in.schedule(true)
		return nil
	}
	S["(*sync.WaitGroup).Wait"] = func(in *Interp, fn *ssa.Function, a []Value) Value {
		p := wg(in, a[0].(PtrV).loc)
		in.schedule(true)
		in.blockUntil(func() bool { return *p == 0 })
		return nil
	}
	S["(*sync.Once).Do"] = func(in *Interp, fn *ssa.Function, a []Value) Value {
		l := a[0].(PtrV).loc
		if in.onces[l] {
			return nil
		}
		in.onces[l] = true
		f := a[1].(FuncV)
		if f.native != nil {
			return f.native(in, nil)
		}
		in.call(f.fn, nil, f.binds)
		return nil
	}
	// sync.Pool: no pooling, Get always calls New
	S["(*sync.Pool).Get"] = func(in *Interp, fn *ssa.Function, a []Value) Value {
		l := a[0].(PtrV).loc
		st := fn.Signature.Recv().Type().(*types.Pointer).Elem().Underlying().(*types.Struct)
		for i := 0; i < st.NumFields(); i++ {
			if st.Field(i).Name() == "New" {
				f, ok := l.sub[i].get().(FuncV)
				if !ok || (f.fn == nil && f.native == nil) {
					return IfaceV{}
				}
				if f.native != nil {
					return f.native(in, nil)
				}
				return in.call(f.fn, nil, f.binds)
			}
		}
		return IfaceV{}
	}
	S["(*sync.Pool).Put"] = func(in *Interp, fn *ssa.Function, a []Value) Value { return nil }
	ld := func(in *Interp, fn *ssa.Function, a []Value) Value { return a[0].(PtrV).loc.get() }
	st := func(in *Interp, fn *ssa.Function, a []Value) Value { a[0].(PtrV).loc.set(a[1]); return nil }
	for _, k := range []string{"Uint32", "Uint64", "Int32", "Int64"} {
		S["sync/atomic.Load"+k] = ld
		S["sync/atomic.Store"+k] = st
		S["sync/atomic.Swap"+k] = func(in *Interp, fn *ssa.Function, a []Value) Value {
			l := a[0].(PtrV).loc
			old := l.get()
			l.set(a[1])
			return old
		}
		S["sync/atomic.CompareAndSwap"+k] = func(in *Interp, fn *ssa.Function, a []Value) Value {
			l := a[0].(PtrV).loc
			if in.branch(Eq(l.get().(*Term), a[1].(*Term))) {
				l.set(a[2])
				return Bool(true)
			}
			return Bool(false)
		}
		S["sync/atomic.Add"+k] = func(in *Interp, fn *ssa.Function, a []Value) Value {
			l := a[0].(PtrV).loc
			l.set(BinBV("bvadd", l.get().(*Term), a[1].(*Term)))
			return l.get()
		}
	}
}

func isNoopPkg(path string) bool {
	return strings.HasPrefix(path, "github.com/rs/zerolog") || strings.HasPrefix(path, "github.com/blevesearch/") || strings.HasPrefix(path, "github.com/prometheus/") || path == "time" || path == "log"
}
