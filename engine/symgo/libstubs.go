package symgo

import (
	"fmt"
	"go/types"
	"strings"

	"golang.org/x/tools/go/ssa"
)

type SetObj struct{ elems []*Term }

func (in *Interp) setOf(v Value) *SetObj {
	l := v.(PtrV).loc
	s, ok := in.sets[l]
	if !ok {
		s = &SetObj{}
		in.sets[l] = s
	}
	return s
}

func (in *Interp) setFind(s *SetObj, x *Term) int {
	for i, e := range s.elems {
		if in.branch(Eq(e, x)) {
			return i
		}
	}
	return -1
}

func (in *Interp) newAbstractBytes(payload Value, n int) SliceV {
	arr := make([]*Loc, n)
	for i := range arr {
		arr[i] = &Loc{v: BVu(8, 0)}
	}
	in.docs[arr[0]] = payload
	return SliceV{arr: arr, n: n, cp: n}
}

func (in *Interp) payloadOf(s SliceV) (Value, bool) {
	if s.n == 0 || s.arr == nil {
		return nil, false
	}
	p, ok := in.docs[s.arr[s.off]]
	return p, ok
}

func errT() types.Type { return types.Universe.Lookup("error").Type() }

func (in *Interp) installLibStubs() {
	S := in.stubs
	const mp = "github.com/vmihailenco/msgpack/v5"
	const ro = "github.com/RoaringBitmap/roaring/roaring64"
	S[mp+".NewDecoder"] = func(in *Interp, fn *ssa.Function, a []Value) Value {
		return PtrV{loc: &Loc{v: BVu(8, 0)}}
	}
	S["(*"+mp+".Decoder).Reset"] = func(in *Interp, fn *ssa.Function, a []Value) Value {
		in.decs[a[0].(PtrV).loc] = a[1]
		return nil
	}
	S["(*"+mp+".Decoder).Query"] = func(in *Interp, fn *ssa.Function, a []Value) Value {
		rd, ok := in.decs[a[0].(PtrV).loc]
		if !ok {
			in.abort("unsupported", "Query without Reset")
		}
		// reader is *bytes.Reader: field 0 is the []byte
		r := rd.(IfaceV).v.(PtrV).loc
		data := r.sub[0].get().(SliceV)
		payload, ok := in.payloadOf(data)
		if !ok {
			in.abort("unsupported", "Query on non-abstract bytes")
		}
		path, ok := a[1].(StrV).concrete()
		if !ok {
			in.abort("unsupported", "symbolic query path")
		}
		cur := payload
		found := true
		for _, seg := range strings.Split(path, ".") {
			iv, isI := cur.(IfaceV)
			if isI {
				cur = iv.v
			}
			m, isM := cur.(MapV)
			if !isM {
				found = false
				break
			}
			v, ok := in.mapGet(m.m, strConst(seg))
			if !ok {
				found = false
				break
			}
			cur = v
		}
		if !found {
			return TupleV{[]Value{SliceV{isNil: true}, IfaceV{}}}
		}
		return TupleV{[]Value{SliceV{arr: []*Loc{{v: cur}}, n: 1, cp: 1}, IfaceV{}}}
	}
	newSet := func(in *Interp, fn *ssa.Function, a []Value) Value {
		l := &Loc{v: BVu(8, 0)}
		in.sets[l] = &SetObj{}
		return PtrV{loc: l}
	}
	S[ro+".New"] = newSet
	S[ro+".NewBitmap"] = newSet
	S["(*"+ro+".Bitmap).CheckedAdd"] = func(in *Interp, fn *ssa.Function, a []Value) Value {
		s := in.setOf(a[0])
		x := a[1].(*Term)
		if in.setFind(s, x) >= 0 {
			return Bool(false)
		}
		s.elems = append(s.elems, x)
		return Bool(true)
	}
	S["(*"+ro+".Bitmap).Add"] = func(in *Interp, fn *ssa.Function, a []Value) Value {
		s := in.setOf(a[0])
		x := a[1].(*Term)
		if in.setFind(s, x) < 0 {
			s.elems = append(s.elems, x)
		}
		return nil
	}
	S["(*"+ro+".Bitmap).CheckedRemove"] = func(in *Interp, fn *ssa.Function, a []Value) Value {
		s := in.setOf(a[0])
		i := in.setFind(s, a[1].(*Term))
		if i < 0 {
			return Bool(false)
		}
		s.elems = append(append([]*Term{}, s.elems[:i]...), s.elems[i+1:]...)
		return Bool(true)
	}
	S["(*"+ro+".Bitmap).Contains"] = func(in *Interp, fn *ssa.Function, a []Value) Value {
		return Bool(in.setFind(in.setOf(a[0]), a[1].(*Term)) >= 0)
	}
	S["(*"+ro+".Bitmap).IsEmpty"] = func(in *Interp, fn *ssa.Function, a []Value) Value {
		return Bool(len(in.setOf(a[0]).elems) == 0)
	}
	S["(*"+ro+".Bitmap).GetCardinality"] = func(in *Interp, fn *ssa.Function, a []Value) Value {
		return BVu(64, uint64(len(in.setOf(a[0]).elems)))
	}
	S["(*"+ro+".Bitmap).ToBytes"] = func(in *Interp, fn *ssa.Function, a []Value) Value {
		s := in.setOf(a[0])
		cp := &SetObj{elems: append([]*Term{}, s.elems...)}
		return TupleV{[]Value{in.newAbstractBytes(cp, 8), IfaceV{}}}
	}
	S["(*"+ro+".Bitmap).ReadFrom"] = func(in *Interp, fn *ssa.Function, a []Value) Value {
		r := a[1].(IfaceV).v.(PtrV).loc
		data := r.sub[0].get().(SliceV)
		p, ok := in.payloadOf(data)
		if !ok {
			in.abort("unsupported", "ReadFrom non-abstract bytes")
		}
		s := in.setOf(a[0])
		s.elems = append([]*Term{}, p.(*SetObj).elems...)
		return TupleV{[]Value{BVi(64, 8), IfaceV{}}}
	}
	S["fmt.Sprintf"] = func(in *Interp, fn *ssa.Function, a []Value) Value {
		f, ok := a[0].(StrV).concrete()
		if !ok {
			return strConst("?")
		}
		va := a[1].(SliceV)
		var sb strings.Builder
		ai := 0
		for i := 0; i < len(f); i++ {
			if f[i] != '%' || i+1 >= len(f) {
				sb.WriteByte(f[i])
				continue
			}
			i++
			if ai >= va.n {
				sb.WriteString("%!missing")
				continue
			}
			arg := va.arr[va.off+ai].get()
			ai++
			if iv, isI := arg.(IfaceV); isI {
				arg = iv.v
			}
			switch x := arg.(type) {
			case StrV:
				if s, ok := x.concrete(); ok {
					sb.WriteString(s)
				} else {
					sb.WriteString("?")
				}
			case *Term:
				if x.IsConst() {
					sb.WriteString(fmt.Sprint(x.Int()))
				} else {
					sb.WriteString("?")
				}
			default:
				sb.WriteString("?")
			}
		}
		return strConst(sb.String())
	}
	S["(github.com/google/uuid.UUID).String"] = func(in *Interp, fn *ssa.Function, a []Value) Value { return strConst("<uuid>") }
	in.intrinsics["vdoc"] = func(in *Interp, args []Value) Value {
		return in.newAbstractBytes(args[0], 4)
	}
}

// ---- reflect (only what utils.CompareAny uses): the dynamic type is known concretely.
type ReflV struct{ iv IfaceV }

func reflKind(t types.Type) uint64 {
	if t == nil {
		return 0
	}
	switch u := t.Underlying().(type) {
	case *types.Basic:
		switch u.Kind() {
		case types.Bool:
			return 1
		case types.Int:
			return 2
		case types.Int8:
			return 3
		case types.Int16:
			return 4
		case types.Int32:
			return 5
		case types.Int64:
			return 6
		case types.Uint:
			return 7
		case types.Uint8:
			return 8
		case types.Uint16:
			return 9
		case types.Uint32:
			return 10
		case types.Uint64:
			return 11
		case types.Uintptr:
			return 12
		case types.Float32:
			return 13
		case types.Float64:
			return 14
		case types.String:
			return 24
		}
	case *types.Array:
		return 17
	case *types.Chan:
		return 18
	case *types.Signature:
		return 19
	case *types.Interface:
		return 20
	case *types.Map:
		return 21
	case *types.Pointer:
		return 22
	case *types.Slice:
		return 23
	case *types.Struct:
		return 25
	}
	return 0
}

func (in *Interp) installReflectStubs() {
	S := in.stubs
	S["reflect.ValueOf"] = func(in *Interp, fn *ssa.Function, a []Value) Value {
		return ReflV{a[0].(IfaceV)}
	}
	S["(reflect.Value).Kind"] = func(in *Interp, fn *ssa.Function, a []Value) Value {
		return BVu(64, reflKind(a[0].(ReflV).iv.t))
	}
	S["(reflect.Value).Int"] = func(in *Interp, fn *ssa.Function, a []Value) Value {
		rv := a[0].(ReflV)
		k := reflKind(rv.iv.t)
		if k < 2 || k > 6 {
			in.abort("panic", "reflect: call of reflect.Value.Int on non-int Value")
		}
		return SignExt(rv.iv.v.(*Term), 64)
	}
	S["(reflect.Value).Uint"] = func(in *Interp, fn *ssa.Function, a []Value) Value {
		rv := a[0].(ReflV)
		k := reflKind(rv.iv.t)
		if k < 7 || k > 12 {
			in.abort("panic", "reflect: call of reflect.Value.Uint on non-uint Value")
		}
		return ZeroExt(rv.iv.v.(*Term), 64)
	}
	S["(reflect.Value).Float"] = func(in *Interp, fn *ssa.Function, a []Value) Value {
		rv := a[0].(ReflV)
		switch reflKind(rv.iv.t) {
		case 14:
			return rv.iv.v
		case 13:
			return in.convert(rv.iv.v, types.Typ[types.Float32], types.Typ[types.Float64])
		}
		in.abort("panic", "reflect: call of reflect.Value.Float on non-float Value")
		return nil
	}
	S["(reflect.Value).String"] = func(in *Interp, fn *ssa.Function, a []Value) Value {
		rv := a[0].(ReflV)
		if reflKind(rv.iv.t) != 24 {
			return strConst("<non-string Value>")
		}
		return rv.iv.v
	}
	// strings helpers on concrete separators
	S["strings.Split"] = func(in *Interp, fn *ssa.Function, a []Value) Value {
		s, sep := a[0].(StrV), a[1].(StrV)
		sp, ok := sep.concrete()
		if !ok || len(sp) != 1 {
			in.abort("unsupported", "strings.Split with symbolic or multi-byte separator")
		}
		var parts []Value
		cur := []*Term{}
		for _, c := range s.b {
			if !c.IsConst() {
				// a symbolic byte may or may not be the separator
				if in.branch(Eq(c, BVu(8, uint64(sp[0])))) {
					parts = append(parts, StrV{cur})
					cur = []*Term{}
					continue
				}
				cur = append(cur, c)
				continue
			}
			if byte(c.Uint()) == sp[0] {
				parts = append(parts, StrV{cur})
				cur = []*Term{}
			} else {
				cur = append(cur, c)
			}
		}
		parts = append(parts, StrV{cur})
		arr := make([]*Loc, len(parts))
		for i, p := range parts {
			arr[i] = &Loc{v: p}
		}
		return SliceV{arr: arr, n: len(arr), cp: len(arr)}
	}
	S["strings.ToLower"] = func(in *Interp, fn *ssa.Function, a []Value) Value {
		s := a[0].(StrV)
		out := make([]*Term, len(s.b))
		for i, c := range s.b {
			if !c.IsConst() {
				// ASCII summary: non-ASCII bytes are outside the encodable domain
				if !in.branch(CmpBV("bvult", c, BVu(8, 0x80))) {
					in.abort("unsupported", "strings.ToLower on non-ASCII byte (Unicode folding not modelled)")
				}
			} else if c.Uint() >= 0x80 {
				in.abort("unsupported", "strings.ToLower on non-ASCII byte (Unicode folding not modelled)")
			}
			isUp := And(CmpBV("bvule", BVu(8, 'A'), c), CmpBV("bvule", c, BVu(8, 'Z')))
			out[i] = Ite(isUp, BinBV("bvadd", c, BVu(8, 32)), c)
		}
		return StrV{out}
	}
	S["strings.HasPrefix"] = func(in *Interp, fn *ssa.Function, a []Value) Value {
		s, p := a[0].(StrV), a[1].(StrV)
		if len(p.b) > len(s.b) {
			return Bool(false)
		}
		return in.valEq(StrV{s.b[:len(p.b)]}, p)
	}
	S["bytes.HasPrefix"] = func(in *Interp, fn *ssa.Function, a []Value) Value {
		s, p := sliceBytes(a[0].(SliceV)), sliceBytes(a[1].(SliceV))
		if len(p) > len(s) {
			return Bool(false)
		}
		return in.valEq(StrV{s[:len(p)]}, StrV{p})
	}
}
