package symgo

import (
	"fmt"
	"go/types"
	"regexp"
	"strings"

	"golang.org/x/tools/go/ssa"
)

type SetObj struct{ elems []*Term }

func (in *Interp) setOf(v Value) *SetObj {
	l := v.(PtrV).loc
	s, ok := in.sets[l]
	if !ok {
		s = &SetObj{}
		in.sets[l] = s
	}
	return s
}

func (in *Interp) setFind(s *SetObj, x *Term) int {
	for i, e := range s.elems {
		if in.branch(Eq(e, x)) {
			return i
		}
	}
	return -1
}

func (in *Interp) newAbstractBytes(payload Value, n int) SliceV {
	arr := make([]*Loc, n)
	for i := range arr {
		arr[i] = &Loc{v: BVu(8, 0)}
	}
	in.docs[arr[0]] = payload
	return SliceV{arr: arr, n: n, cp: n}
}

func (in *Interp) payloadOf(s SliceV) (Value, bool) {
	if s.n == 0 || s.arr == nil {
		return nil, false
	}
	p, ok := in.docs[s.arr[s.off]]
	return p, ok
}

func errT() types.Type { return types.Universe.Lookup("error").Type() }

// deepCopy copies a value graph (the abstract model of serialise + deserialise).
func (in *Interp) deepCopy(v Value) Value {
	switch x := v.(type) {
	case MapV:
		if x.m == nil {
			return x
		}
		m := &MapObj{}
		for i := range x.m.keys {
			m.keys = append(m.keys, in.deepCopy(x.m.keys[i]))
			m.vals = append(m.vals, in.deepCopy(x.m.vals[i]))
		}
		return MapV{m}
	case SliceV:
		if x.symLen != nil || x.isNil {
			return x
		}
		if p, ok := in.payloadOf(x); ok {
			_ = p
			return x // abstract bytes are immutable objects
		}
		arr := make([]*Loc, x.n)
		for i := 0; i < x.n; i++ {
			arr[i] = in.copyLoc(x.arr[x.off+i])
		}
		return SliceV{arr: arr, n: x.n, cp: x.n}
	case IfaceV:
		return IfaceV{t: x.t, v: in.deepCopy(x.v)}
	case StructV:
		f := make([]Value, len(x.f))
		for i := range f {
			f[i] = in.deepCopy(x.f[i])
		}
		return StructV{f}
	case ArrayV:
		e := make([]Value, len(x.e))
		for i := range e {
			e[i] = in.deepCopy(x.e[i])
		}
		return ArrayV{e}
	case PtrV:
		if x.loc == nil {
			return x
		}
		return PtrV{loc: in.copyLoc(x.loc)}
	}
	return v
}

func (in *Interp) copyLoc(l *Loc) *Loc {
	if l.sub != nil {
		n := &Loc{sub: make([]*Loc, len(l.sub))}
		for i, s := range l.sub {
			n.sub[i] = in.copyLoc(s)
		}
		return n
	}
	return &Loc{v: in.deepCopy(l.get())}
}

// abstract encoded bytes: one cell identifying the payload, symbolic length >= 1
func (in *Interp) newDocBytes(payload Value) SliceV {
	arr := []*Loc{{v: BVu(8, 0)}}
	in.docs[arr[0]] = payload
	ln := in.fresh(64, "enclen")
	in.addPC(And(CmpBV("bvsle", BVi(64, 1), ln), CmpBV("bvsle", ln, BVi(64, 1<<30))))
	return SliceV{arr: arr, n: 1, cp: 1, symLen: ln}
}

// unwrapReader: a struct value whose only field is an embedded *bytes.Reader (a body with Close)
func unwrapReader(r Value) Value {
	iv, ok := r.(IfaceV)
	if !ok || iv.t == nil {
		return r
	}
	st, ok := iv.t.Underlying().(*types.Struct)
	if !ok || st.NumFields() != 1 || !st.Field(0).Embedded() {
		return r
	}
	sv, ok := iv.v.(StructV)
	if !ok {
		return r
	}
	return IfaceV{t: st.Field(0).Type(), v: sv.f[0]}
}

func (in *Interp) isBytesReader(r Value) bool {
	r = unwrapReader(r)
	iv, ok := r.(IfaceV)
	if !ok || iv.t == nil {
		return false
	}
	pt, ok := iv.t.(*types.Pointer)
	if !ok {
		return false
	}
	n, ok := pt.Elem().(*types.Named)
	return ok && n.Obj().Pkg() != nil && n.Obj().Pkg().Path() == "bytes" && n.Obj().Name() == "Reader"
}

func (in *Interp) readerBytes(r Value) SliceV {
	r = unwrapReader(r)
	iv, ok := r.(IfaceV)
	if !ok || iv.t == nil {
		in.abort("unsupported", "decoder over nil reader")
	}
	p, ok := iv.v.(PtrV)
	if !ok || p.loc == nil || p.loc.sub == nil {
		in.abort("unsupported", "decoder over a reader that is not *bytes.Reader")
	}
	return p.loc.sub[0].get().(SliceV)
}

// storeDecoded assigns a decoded payload to the pointer target, adapting interface wrapping.
func (in *Interp) storeDecoded(target Value, payload Value) {
	tv, ok := target.(IfaceV)
	if !ok || tv.t == nil {
		in.abort("unsupported", "Unmarshal into nil")
	}
	pt, ok := tv.t.Underlying().(*types.Pointer)
	if !ok {
		in.abort("unsupported", "Unmarshal into non-pointer "+tv.t.String())
	}
	val := in.deepCopy(payload)
	if _, isI := pt.Elem().Underlying().(*types.Interface); !isI {
		if iv, wrapped := val.(IfaceV); wrapped {
			val = iv.v
		}
	} else if _, wrapped := val.(IfaceV); !wrapped {
		in.abort("unsupported", "Unmarshal of unwrapped payload into interface")
	}
	store(tv.v.(PtrV).loc, val)
}

func (in *Interp) eofErr() Value {
	p := in.prog.ImportedPackage("io")
	if p == nil || p.Var("EOF") == nil {
		return in.newErrorString("EOF")
	}
	return load(in.global(p.Var("EOF")), errT())
}

func (in *Interp) docQuery(payload Value, path string) (Value, bool) {
	cur := payload
	for _, seg := range strings.Split(path, ".") {
		if iv, isI := cur.(IfaceV); isI {
			cur = iv.v
		}
		m, isM := cur.(MapV)
		if !isM || m.m == nil {
			return nil, false
		}
		v, ok := in.mapGet(m.m, strConst(seg))
		if !ok {
			return nil, false
		}
		cur = v
	}
	return cur, true
}

// sorted ascending copy of a symbolic set (forks on comparisons)
func (in *Interp) setSorted(s *SetObj) []*Term {
	out := append([]*Term{}, s.elems...)
	for i := 1; i < len(out); i++ {
		for j := i; j > 0; j-- {
			if in.branch(CmpBV("bvult", out[j], out[j-1])) {
				out[j], out[j-1] = out[j-1], out[j]
			} else {
				break
			}
		}
	}
	return out
}

func (in *Interp) newSetPtr(elems []*Term) Value {
	l := &Loc{v: BVu(8, 0)}
	in.sets[l] = &SetObj{elems: elems}
	return PtrV{loc: l}
}

func (in *Interp) setUnion(sets []*SetObj) []*Term {
	var out []*Term
	acc := &SetObj{}
	for _, s := range sets {
		for _, e := range s.elems {
			if in.setFind(acc, e) < 0 {
				acc.elems = append(acc.elems, e)
			}
		}
	}
	out = acc.elems
	return out
}

func (in *Interp) setInter(sets []*SetObj) []*Term {
	if len(sets) == 0 {
		return nil
	}
	var out []*Term
	for _, e := range sets[0].elems {
		all := true
		for _, s := range sets[1:] {
			if in.setFind(s, e) < 0 {
				all = false
				break
			}
		}
		if all {
			out = append(out, e)
		}
	}
	return out
}

// untrustedDecode models a decoder reading bytes the harness does not control as abstract
// documents (a request body): it fails with some error, or succeeds and leaves arbitrary
// values in the scalar fields of the target (strings up to 2 bytes; pointers, slices, maps
// and interfaces stay zero: bound of the model).
func (in *Interp) untrustedDecode(target Value, what string) Value {
	tv, ok := target.(IfaceV)
	if !ok || tv.t == nil {
		in.abort("unsupported", what+": decode into nil")
	}
	pt, ok := tv.t.Underlying().(*types.Pointer)
	if !ok {
		in.abort("unsupported", what+": decode into non-pointer "+tv.t.String())
	}
	if in.choose(func() []int { return []int{0, 1} }) == 0 {
		return in.newErrorString(what + ": malformed input")
	}
	in.havoc(tv.v.(PtrV).loc, pt.Elem())
	return IfaceV{}
}

func (in *Interp) havoc(l *Loc, t types.Type) {
	switch u := t.Underlying().(type) {
	case *types.Basic:
		switch {
		case u.Kind() == types.String:
			n := in.choose(func() []int { return []int{0, 1, 2} })
			b := make([]*Term, n)
			for i := range b {
				b[i] = in.fresh(8, "dec")
			}
			l.set(StrV{b: b})
		case u.Kind() == types.Bool:
			l.set(in.fresh(1, "dec"))
		case u.Info()&(types.IsInteger|types.IsFloat) != 0:
			l.set(in.fresh(widthOf(t), "dec"))
		}
	case *types.Struct:
		for i := 0; i < u.NumFields(); i++ {
			in.havoc(l.sub[i], u.Field(i).Type())
		}
	case *types.Array:
		for i := range l.sub {
			in.havoc(l.sub[i], u.Elem())
		}
	}
}

type setIter struct {
	elems []*Term
	pos   int
}

func (in *Interp) installLibStubs() {
	S := in.stubs
	const mp = "github.com/vmihailenco/msgpack/v5"
	const ro = "github.com/RoaringBitmap/roaring/roaring64"
	nilErr := IfaceV{}
	// ---- msgpack: abstract documents
	S[mp+".Marshal"] = func(in *Interp, fn *ssa.Function, a []Value) Value {
		return TupleV{[]Value{in.newDocBytes(in.deepCopy(a[0])), nilErr}}
	}
	S[mp+".Unmarshal"] = func(in *Interp, fn *ssa.Function, a []Value) Value {
		data := a[0].(SliceV)
		if data.symLen == nil && data.n == 0 {
			return in.eofErr()
		}
		payload, ok := in.payloadOf(data)
		if !ok {
			in.abort("unsupported", "Unmarshal of non-abstract bytes")
		}
		in.storeDecoded(a[1], payload)
		return nilErr
	}
	S[mp+".NewDecoder"] = func(in *Interp, fn *ssa.Function, a []Value) Value {
		l := &Loc{v: BVu(8, 0)}
		if iv, ok := a[0].(IfaceV); ok && iv.t != nil {
			in.decs[l] = a[0]
		}
		return PtrV{loc: l}
	}
	S["(*"+mp+".Decoder).Reset"] = func(in *Interp, fn *ssa.Function, a []Value) Value {
		in.decs[a[0].(PtrV).loc] = a[1]
		return nil
	}
	S["(*"+mp+".Decoder).Decode"] = func(in *Interp, fn *ssa.Function, a []Value) Value {
		rd, ok := in.decs[a[0].(PtrV).loc]
		if !ok {
			in.abort("unsupported", "Decode without reader")
		}
		if !in.isBytesReader(rd) {
			return in.untrustedDecode(a[1], "msgpack")
		}
		data := in.readerBytes(rd)
		if data.symLen == nil && data.n == 0 {
			return in.eofErr()
		}
		payload, ok := in.payloadOf(data)
		if !ok {
			in.abort("unsupported", "Decode of non-abstract bytes")
		}
		in.storeDecoded(a[1], payload)
		return nilErr
	}
	S["(*"+mp+".Decoder).SetCustomStructTag"] = func(in *Interp, fn *ssa.Function, a []Value) Value { return nil }
	S["runtime/debug.Stack"] = func(in *Interp, fn *ssa.Function, a []Value) Value { return SliceV{isNil: true} }
	S["encoding/json.NewEncoder"] = func(in *Interp, fn *ssa.Function, a []Value) Value {
		return PtrV{loc: &Loc{v: BVu(8, 0)}}
	}
	S["(*encoding/json.Encoder).Encode"] = func(in *Interp, fn *ssa.Function, a []Value) Value { return IfaceV{} } // response bodies are not modelled
	S["github.com/google/uuid.New"] = func(in *Interp, fn *ssa.Function, a []Value) Value {
		e := make([]Value, 16)
		for i := range e {
			e[i] = in.fresh(8, "uuidnew")
		}
		return ArrayV{e: e}
	}
	S["encoding/json.NewDecoder"] = func(in *Interp, fn *ssa.Function, a []Value) Value {
		return PtrV{loc: &Loc{v: BVu(8, 0)}}
	}
	S["(*encoding/json.Decoder).Decode"] = func(in *Interp, fn *ssa.Function, a []Value) Value {
		return in.untrustedDecode(a[1], "json")
	}
	S["(*"+mp+".Decoder).Query"] = func(in *Interp, fn *ssa.Function, a []Value) Value {
		rd, ok := in.decs[a[0].(PtrV).loc]
		if !ok {
			in.abort("unsupported", "Query without Reset")
		}
		data := in.readerBytes(rd)
		if data.symLen == nil && data.n == 0 {
			return TupleV{[]Value{SliceV{isNil: true}, in.eofErr()}}
		}
		payload, ok := in.payloadOf(data)
		if !ok {
			in.abort("unsupported", "Query on non-abstract bytes")
		}
		path, ok := a[1].(StrV).concrete()
		if !ok {
			in.abort("unsupported", "symbolic query path")
		}
		cur, found := in.docQuery(payload, path)
		if !found {
			return TupleV{[]Value{SliceV{isNil: true}, nilErr}}
		}
		return TupleV{[]Value{SliceV{arr: []*Loc{{v: in.deepCopy(cur)}}, n: 1, cp: 1}, nilErr}}
	}
	// ---- roaring64: abstract finite sets of uint64
	newSet := func(in *Interp, fn *ssa.Function, a []Value) Value { return in.newSetPtr(nil) }
	S[ro+".New"] = newSet
	S[ro+".NewBitmap"] = newSet
	S[ro+".BitmapOf"] = func(in *Interp, fn *ssa.Function, a []Value) Value {
		sv := a[0].(SliceV)
		s := &SetObj{}
		for i := 0; i < sv.n; i++ {
			x := sv.arr[sv.off+i].get().(*Term)
			if in.setFind(s, x) < 0 {
				s.elems = append(s.elems, x)
			}
		}
		return in.newSetPtr(s.elems)
	}
	S["(*"+ro+".Bitmap).CheckedAdd"] = func(in *Interp, fn *ssa.Function, a []Value) Value {
		s := in.setOf(a[0])
		x := a[1].(*Term)
		if in.setFind(s, x) >= 0 {
			return Bool(false)
		}
		s.elems = append(s.elems, x)
		return Bool(true)
	}
	S["(*"+ro+".Bitmap).Add"] = func(in *Interp, fn *ssa.Function, a []Value) Value {
		s := in.setOf(a[0])
		x := a[1].(*Term)
		if in.setFind(s, x) < 0 {
			s.elems = append(s.elems, x)
		}
		return nil
	}
	remove := func(in *Interp, a []Value) bool {
		s := in.setOf(a[0])
		i := in.setFind(s, a[1].(*Term))
		if i < 0 {
			return false
		}
		s.elems = append(append([]*Term{}, s.elems[:i]...), s.elems[i+1:]...)
		return true
	}
	S["(*"+ro+".Bitmap).CheckedRemove"] = func(in *Interp, fn *ssa.Function, a []Value) Value { return Bool(remove(in, a)) }
	S["(*"+ro+".Bitmap).Remove"] = func(in *Interp, fn *ssa.Function, a []Value) Value { remove(in, a); return nil }
	S["(*"+ro+".Bitmap).Contains"] = func(in *Interp, fn *ssa.Function, a []Value) Value {
		return Bool(in.setFind(in.setOf(a[0]), a[1].(*Term)) >= 0)
	}
	S["(*"+ro+".Bitmap).IsEmpty"] = func(in *Interp, fn *ssa.Function, a []Value) Value {
		return Bool(len(in.setOf(a[0]).elems) == 0)
	}
	S["(*"+ro+".Bitmap).GetCardinality"] = func(in *Interp, fn *ssa.Function, a []Value) Value {
		return BVu(64, uint64(len(in.setOf(a[0]).elems)))
	}
	S["(*"+ro+".Bitmap).GetSizeInBytes"] = func(in *Interp, fn *ssa.Function, a []Value) Value {
		return BVu(64, uint64(8*len(in.setOf(a[0]).elems)+16))
	}
	S["(*"+ro+".Bitmap).Clear"] = func(in *Interp, fn *ssa.Function, a []Value) Value {
		in.setOf(a[0]).elems = nil
		return nil
	}
	S["(*"+ro+".Bitmap).Clone"] = func(in *Interp, fn *ssa.Function, a []Value) Value {
		return in.newSetPtr(append([]*Term{}, in.setOf(a[0]).elems...))
	}
	S["(*"+ro+".Bitmap).Or"] = func(in *Interp, fn *ssa.Function, a []Value) Value {
		s := in.setOf(a[0])
		s.elems = in.setUnion([]*SetObj{s, in.setOf(a[1])})
		return nil
	}
	S["(*"+ro+".Bitmap).And"] = func(in *Interp, fn *ssa.Function, a []Value) Value {
		s := in.setOf(a[0])
		s.elems = in.setInter([]*SetObj{s, in.setOf(a[1])})
		return nil
	}
	S["(*"+ro+".Bitmap).Equals"] = func(in *Interp, fn *ssa.Function, a []Value) Value {
		x, y := in.setOf(a[0]), in.setOf(a[1])
		if len(x.elems) != len(y.elems) {
			return Bool(false)
		}
		for _, e := range x.elems {
			if in.setFind(y, e) < 0 {
				return Bool(false)
			}
		}
		return Bool(true)
	}
	variadic := func(a Value) []*SetObj {
		sv := a.(SliceV)
		var sets []*SetObj
		for i := 0; i < sv.n; i++ {
			sets = append(sets, in.setOf(sv.arr[sv.off+i].get()))
		}
		return sets
	}
	S[ro+".FastOr"] = func(in *Interp, fn *ssa.Function, a []Value) Value {
		return in.newSetPtr(in.setUnion(variadic(a[0])))
	}
	S[ro+".FastAnd"] = func(in *Interp, fn *ssa.Function, a []Value) Value {
		sets := variadic(a[0])
		if len(sets) == 0 {
			return in.newSetPtr(nil)
		}
		return in.newSetPtr(in.setInter(sets))
	}
	S[ro+".And"] = func(in *Interp, fn *ssa.Function, a []Value) Value {
		return in.newSetPtr(in.setInter([]*SetObj{in.setOf(a[0]), in.setOf(a[1])}))
	}
	S[ro+".Or"] = func(in *Interp, fn *ssa.Function, a []Value) Value {
		return in.newSetPtr(in.setUnion([]*SetObj{in.setOf(a[0]), in.setOf(a[1])}))
	}
	S["(*"+ro+".Bitmap).ToArray"] = func(in *Interp, fn *ssa.Function, a []Value) Value {
		el := in.setSorted(in.setOf(a[0]))
		arr := make([]*Loc, len(el))
		for i, e := range el {
			arr[i] = &Loc{v: e}
		}
		return SliceV{arr: arr, n: len(arr), cp: len(arr)}
	}
	S["(*"+ro+".Bitmap).Iterator"] = func(in *Interp, fn *ssa.Function, a []Value) Value {
		it := &setIter{elems: in.setSorted(in.setOf(a[0]))}
		ms := in.prog.ImportedPackage(ro)
		if ms == nil || ms.Type("intIterator") == nil {
			in.abort("unsupported", "roaring64.intIterator type not found")
		}
		return IfaceV{t: types.NewPointer(ms.Type("intIterator").Type()), v: it}
	}
	S["(*"+ro+".intIterator).HasNext"] = func(in *Interp, fn *ssa.Function, a []Value) Value {
		it := a[0].(*setIter)
		return Bool(it.pos < len(it.elems))
	}
	S["(*"+ro+".intIterator).Next"] = func(in *Interp, fn *ssa.Function, a []Value) Value {
		it := a[0].(*setIter)
		if it.pos >= len(it.elems) {
			in.abort("panic", "roaring iterator Next past the end")
		}
		it.pos++
		return it.elems[it.pos-1]
	}
	S["(*"+ro+".Bitmap).ToBytes"] = func(in *Interp, fn *ssa.Function, a []Value) Value {
		s := in.setOf(a[0])
		cp := &SetObj{elems: append([]*Term{}, s.elems...)}
		return TupleV{[]Value{in.newDocBytes(cp), nilErr}}
	}
	S["(*"+ro+".Bitmap).ReadFrom"] = func(in *Interp, fn *ssa.Function, a []Value) Value {
		data := in.readerBytes(a[1])
		p, ok := in.payloadOf(data)
		if !ok {
			in.abort("unsupported", "ReadFrom non-abstract bytes")
		}
		so, ok := p.(*SetObj)
		if !ok {
			in.abort("unsupported", "ReadFrom bytes that do not hold a bitmap")
		}
		s := in.setOf(a[0])
		s.elems = append([]*Term{}, so.elems...)
		return TupleV{[]Value{BVi(64, 8), nilErr}}
	}
	S["fmt.Sprintf"] = func(in *Interp, fn *ssa.Function, a []Value) Value {
		f, ok := a[0].(StrV).concrete()
		if !ok {
			return strConst("?")
		}
		va := a[1].(SliceV)
		var sb strings.Builder
		ai := 0
		for i := 0; i < len(f); i++ {
			if f[i] != '%' || i+1 >= len(f) {
				sb.WriteByte(f[i])
				continue
			}
			i++
			if f[i] == '%' {
				sb.WriteByte('%')
				continue
			}
			if ai >= va.n {
				sb.WriteString("%!missing")
				continue
			}
			arg := va.arr[va.off+ai].get()
			ai++
			if iv, isI := arg.(IfaceV); isI {
				arg = iv.v
			}
			switch x := arg.(type) {
			case StrV:
				if s, ok := x.concrete(); ok {
					sb.WriteString(s)
				} else {
					sb.WriteString("?")
				}
			case *Term:
				if x.IsConst() {
					sb.WriteString(fmt.Sprint(x.Int()))
				} else {
					sb.WriteString("?")
				}
			default:
				sb.WriteString("?")
			}
		}
		return strConst(sb.String())
	}
	// fmt.Sprint of concrete values (%v formatting of strings, integers, booleans, slices, nil)
	var fmtV func(v Value) (string, bool, bool)
	fmtV = func(v Value) (string, bool, bool) { // text, isString, ok
		switch x := v.(type) {
		case IfaceV:
			if x.t == nil {
				return "<nil>", false, true
			}
			return fmtV(x.v)
		case StrV:
			s, ok := x.concrete()
			return s, true, ok
		case *Term:
			if !x.IsConst() {
				return "", false, false
			}
			if x.w == 1 {
				if x.True() {
					return "true", false, true
				}
				return "false", false, true
			}
			return fmt.Sprint(x.Int()), false, true
		case SliceV:
			if x.isNil || x.symLen != nil {
				if x.isNil {
					return "[]", false, true
				}
				return "", false, false
			}
			parts := make([]string, x.n)
			for i := 0; i < x.n; i++ {
				t, _, ok := fmtV(x.arr[x.off+i].get())
				if !ok {
					return "", false, false
				}
				parts[i] = t
			}
			return "[" + strings.Join(parts, " ") + "]", false, true
		case nil:
			return "<nil>", false, true
		}
		return "", false, false
	}
	S["fmt.Sprint"] = func(in *Interp, fn *ssa.Function, a []Value) Value {
		va := a[0].(SliceV)
		var sb strings.Builder
		prevString := true
		for i := 0; i < va.n; i++ {
			t, isStr, ok := fmtV(va.arr[va.off+i].get())
			if !ok {
				in.abort("unsupported", "fmt.Sprint of a symbolic or unsupported value")
			}
			if i > 0 && !isStr && !prevString {
				sb.WriteByte(' ')
			}
			sb.WriteString(t)
			prevString = isStr
		}
		return strConst(sb.String())
	}
	// uuid <-> string: an abstract inverse pair (formatting forks 256-way per symbolic byte)
	S["(github.com/google/uuid.UUID).String"] = func(in *Interp, fn *ssa.Function, a []Value) Value {
		tag := in.fresh(8, "uuidstr")
		b := make([]*Term, 36)
		b[0] = tag
		for i := 1; i < 36; i++ {
			b[i] = BVu(8, '?')
		}
		in.uuidStrs[tag] = a[0]
		return StrV{b}
	}
	S["github.com/google/uuid.Parse"] = func(in *Interp, fn *ssa.Function, a []Value) Value {
		s := a[0].(StrV)
		if len(s.b) == 36 {
			if u, ok := in.uuidStrs[s.b[0]]; ok {
				return TupleV{[]Value{u, nilErr}}
			}
		}
		if _, ok := s.concrete(); !ok {
			in.abort("unsupported", "uuid.Parse of a symbolic string that did not come from UUID.String")
		}
		if fn.Blocks == nil {
			in.abort("unsupported", "uuid.Parse without body")
		}
		return in.callBody(fn, a)
	}
	in.intrinsics["vdoc"] = func(in *Interp, args []Value) Value {
		return in.newDocBytes(in.deepCopy(args[0]))
	}
}

// ---- reflect (only what utils.CompareAny uses): the dynamic type is known concretely.
type ReflV struct{ iv IfaceV }

func reflKind(t types.Type) uint64 {
	if t == nil {
		return 0
	}
	switch u := t.Underlying().(type) {
	case *types.Basic:
		switch u.Kind() {
		case types.Bool:
			return 1
		case types.Int:
			return 2
		case types.Int8:
			return 3
		case types.Int16:
			return 4
		case types.Int32:
			return 5
		case types.Int64:
			return 6
		case types.Uint:
			return 7
		case types.Uint8:
			return 8
		case types.Uint16:
			return 9
		case types.Uint32:
			return 10
		case types.Uint64:
			return 11
		case types.Uintptr:
			return 12
		case types.Float32:
			return 13
		case types.Float64:
			return 14
		case types.String:
			return 24
		}
	case *types.Array:
		return 17
	case *types.Chan:
		return 18
	case *types.Signature:
		return 19
	case *types.Interface:
		return 20
	case *types.Map:
		return 21
	case *types.Pointer:
		return 22
	case *types.Slice:
		return 23
	case *types.Struct:
		return 25
	}
	return 0
}

func (in *Interp) installReflectStubs() {
	S := in.stubs
	S["reflect.ValueOf"] = func(in *Interp, fn *ssa.Function, a []Value) Value {
		return ReflV{a[0].(IfaceV)}
	}
	S["(reflect.Value).Kind"] = func(in *Interp, fn *ssa.Function, a []Value) Value {
		return BVu(64, reflKind(a[0].(ReflV).iv.t))
	}
	S["(reflect.Value).Int"] = func(in *Interp, fn *ssa.Function, a []Value) Value {
		rv := a[0].(ReflV)
		k := reflKind(rv.iv.t)
		if k < 2 || k > 6 {
			in.abort("panic", "reflect: call of reflect.Value.Int on non-int Value")
		}
		return SignExt(rv.iv.v.(*Term), 64)
	}
	S["(reflect.Value).Uint"] = func(in *Interp, fn *ssa.Function, a []Value) Value {
		rv := a[0].(ReflV)
		k := reflKind(rv.iv.t)
		if k < 7 || k > 12 {
			in.abort("panic", "reflect: call of reflect.Value.Uint on non-uint Value")
		}
		return ZeroExt(rv.iv.v.(*Term), 64)
	}
	S["(reflect.Value).Float"] = func(in *Interp, fn *ssa.Function, a []Value) Value {
		rv := a[0].(ReflV)
		switch reflKind(rv.iv.t) {
		case 14:
			return rv.iv.v
		case 13:
			return in.convert(rv.iv.v, types.Typ[types.Float32], types.Typ[types.Float64])
		}
		in.abort("panic", "reflect: call of reflect.Value.Float on non-float Value")
		return nil
	}
	S["(reflect.Value).String"] = func(in *Interp, fn *ssa.Function, a []Value) Value {
		rv := a[0].(ReflV)
		if reflKind(rv.iv.t) != 24 {
			return strConst("<non-string Value>")
		}
		return rv.iv.v
	}
	// strings helpers on concrete separators
	S["strings.Split"] = func(in *Interp, fn *ssa.Function, a []Value) Value {
		s, sep := a[0].(StrV), a[1].(StrV)
		sp, ok := sep.concrete()
		if !ok || len(sp) != 1 {
			in.abort("unsupported", "strings.Split with symbolic or multi-byte separator")
		}
		var parts []Value
		cur := []*Term{}
		for _, c := range s.b {
			if !c.IsConst() {
				// a symbolic byte may or may not be the separator
				if in.branch(Eq(c, BVu(8, uint64(sp[0])))) {
					parts = append(parts, StrV{cur})
					cur = []*Term{}
					continue
				}
				cur = append(cur, c)
				continue
			}
			if byte(c.Uint()) == sp[0] {
				parts = append(parts, StrV{cur})
				cur = []*Term{}
			} else {
				cur = append(cur, c)
			}
		}
		parts = append(parts, StrV{cur})
		arr := make([]*Loc, len(parts))
		for i, p := range parts {
			arr[i] = &Loc{v: p}
		}
		return SliceV{arr: arr, n: len(arr), cp: len(arr)}
	}
	S["strings.ToLower"] = func(in *Interp, fn *ssa.Function, a []Value) Value {
		s := a[0].(StrV)
		out := make([]*Term, len(s.b))
		for i, c := range s.b {
			if !c.IsConst() {
				// ASCII summary: non-ASCII bytes are outside the encodable domain
				if !in.branch(CmpBV("bvult", c, BVu(8, 0x80))) {
					in.abort("unsupported", "strings.ToLower on non-ASCII byte (Unicode folding not modelled)")
				}
			} else if c.Uint() >= 0x80 {
				in.abort("unsupported", "strings.ToLower on non-ASCII byte (Unicode folding not modelled)")
			}
			isUp := And(CmpBV("bvule", BVu(8, 'A'), c), CmpBV("bvule", c, BVu(8, 'Z')))
			out[i] = Ite(isUp, BinBV("bvadd", c, BVu(8, 32)), c)
		}
		return StrV{out}
	}
	S["strings.HasPrefix"] = func(in *Interp, fn *ssa.Function, a []Value) Value {
		s, p := a[0].(StrV), a[1].(StrV)
		if len(p.b) > len(s.b) {
			return Bool(false)
		}
		return in.valEq(StrV{s.b[:len(p.b)]}, p)
	}
	// regexp: a constant pattern compiled by the real package and evaluated on concrete subjects
	// only (a symbolic subject is outside the encodable domain)
	S["regexp.MustCompile"] = func(in *Interp, fn *ssa.Function, a []Value) Value {
		pat, ok := a[0].(StrV).concrete()
		if !ok {
			in.abort("unsupported", "regexp.MustCompile of a symbolic pattern")
		}
		if _, err := regexp.Compile(pat); err != nil {
			in.abort("unsupported", "regexp.MustCompile panics: "+err.Error())
		}
		return PtrV{loc: newLoc(OpaqueV{tag: "regexp:" + pat})}
	}
	S["(*regexp.Regexp).MatchString"] = func(in *Interp, fn *ssa.Function, a []Value) Value {
		o, ok := a[0].(PtrV).loc.get().(OpaqueV)
		subj, ok2 := a[1].(StrV).concrete()
		if !ok || !ok2 || !strings.HasPrefix(o.tag, "regexp:") {
			in.abort("unsupported", "regexp match on a symbolic subject or unknown pattern")
		}
		return Bool(regexp.MustCompile(strings.TrimPrefix(o.tag, "regexp:")).MatchString(subj))
	}
	S["bytes.HasPrefix"] = func(in *Interp, fn *ssa.Function, a []Value) Value {
		s, p := sliceBytes(a[0].(SliceV)), sliceBytes(a[1].(SliceV))
		if len(p) > len(s) {
			return Bool(false)
		}
		return in.valEq(StrV{s[:len(p)]}, StrV{p})
	}
}

// ---- bbolt: a bucket is an ordered key/value list (the documented cursor contract:
// sorted iteration, Seek positions at the first key >= the argument).
type boltBucket struct {
	keys [][]*Term
	vals []Value
	tx   *boltTx // nil: a free-standing bucket of the harness
}

// bbolt.DB at transaction level (the documented contract): one read-write transaction at a
// time, a transaction sees the state committed when it began, Commit installs the writer's
// state or fails and rolls back, Close waits for every open transaction.
type boltDB struct {
	path     string
	buckets  map[string]*boltBucket
	openRead int
	writer   *boltTx
	closed   bool
	faults   bool // environment faults (commit, copy) may be injected
}

type boltTx struct {
	db       *boltDB
	writable bool
	closed   bool
	work     map[string]*boltBucket
	handles  map[string]*Loc
}

func (in *Interp) boltBegin(db *boltDB, writable bool) *boltTx {
	tx := &boltTx{db: db, writable: writable, work: map[string]*boltBucket{}, handles: map[string]*Loc{}}
	if writable {
		if db.writer != nil {
			in.finding("deadlock", "bbolt: a read-write transaction is begun while another one was never finished (blocks forever)", nil)
			in.abort("infeasible", "writer deadlock")
		}
		db.writer = tx
		for name, b := range db.buckets {
			tx.work[name] = &boltBucket{keys: append([][]*Term{}, b.keys...), vals: append([]Value{}, b.vals...), tx: tx}
		}
	} else {
		db.openRead++
		for name, b := range db.buckets {
			tx.work[name] = &boltBucket{keys: b.keys, vals: b.vals, tx: tx} // never written through a read transaction
		}
	}
	return tx
}

func (in *Interp) boltEnd(tx *boltTx, commit bool) {
	tx.closed = true
	if tx.writable {
		tx.db.writer = nil
		if commit {
			nb := map[string]*boltBucket{}
			for name, b := range tx.work {
				nb[name] = &boltBucket{keys: b.keys, vals: b.vals}
			}
			tx.db.buckets = nb
		}
	} else {
		tx.db.openRead--
	}
}

func (in *Interp) txVal(tx *boltTx) Value {
	l := &Loc{v: BVu(8, 0)}
	in.boltTxs[l] = tx
	return PtrV{loc: l}
}

type boltCursor struct {
	b   *boltBucket
	pos int
}

func (in *Interp) boltOf(v Value) *boltBucket {
	p, ok := v.(PtrV)
	if !ok || p.loc == nil {
		in.abort("panic", "nil *bbolt.Bucket")
	}
	b, ok := in.bolts[p.loc]
	if !ok {
		in.abort("unsupported", "bbolt.Bucket not created by the harness")
	}
	if b.tx != nil && b.tx.closed {
		in.abort("panic", "bbolt bucket used after its transaction ended")
	}
	return b
}

// insert keeping ascending order (forks on comparisons with symbolic keys)
func (in *Interp) boltPut(b *boltBucket, k []*Term, v Value) {
	for i := range b.keys {
		c := cmpBytesTerm(k, b.keys[i])
		if in.branch(Eq(c, BVi(64, 0))) {
			b.vals[i] = v
			return
		}
		if in.branch(CmpBV("bvslt", c, BVi(64, 0))) {
			b.keys = append(b.keys[:i], append([][]*Term{k}, b.keys[i:]...)...)
			b.vals = append(b.vals[:i], append([]Value{v}, b.vals[i:]...)...)
			return
		}
	}
	b.keys = append(b.keys, k)
	b.vals = append(b.vals, v)
}

func bytesSlice(b []*Term) SliceV {
	arr := make([]*Loc, len(b))
	for i, t := range b {
		arr[i] = &Loc{v: t}
	}
	return SliceV{arr: arr, n: len(arr), cp: len(arr)}
}

func (in *Interp) cursorKV(c *boltCursor) Value {
	if c.pos < 0 || c.pos >= len(c.b.keys) {
		return TupleV{[]Value{SliceV{isNil: true}, SliceV{isNil: true}}}
	}
	return TupleV{[]Value{bytesSlice(c.b.keys[c.pos]), c.b.vals[c.pos]}}
}

func (in *Interp) installBoltStubs() {
	S := in.stubs
	const bb = "go.etcd.io/bbolt"
	in.intrinsics["vboltbucket"] = func(in *Interp, args []Value) Value {
		ks, vs := args[0].(SliceV), args[1].(SliceV)
		b := &boltBucket{}
		for i := 0; i < ks.n; i++ {
			k := sliceBytes(ks.arr[ks.off+i].get().(SliceV))
			var v Value = SliceV{isNil: true}
			if i < vs.n {
				v = vs.arr[vs.off+i].get()
			}
			in.boltPut(b, k, v)
		}
		l := &Loc{v: BVu(8, 0)}
		in.bolts[l] = b
		return PtrV{loc: l}
	}
	in.intrinsics["vboltdb"] = func(in *Interp, args []Value) Value {
		l := &Loc{v: BVu(8, 0)}
		in.boltDBs[l] = &boltDB{buckets: map[string]*boltBucket{}}
		return PtrV{loc: l}
	}
	dbOf := func(in *Interp, v Value) *boltDB {
		p, ok := v.(PtrV)
		if !ok || p.loc == nil {
			in.abort("panic", "nil *bbolt.DB")
		}
		db, ok := in.boltDBs[p.loc]
		if !ok {
			in.abort("unsupported", "bbolt.DB not created by the harness")
		}
		return db
	}
	txOf := func(in *Interp, v Value) *boltTx {
		p, ok := v.(PtrV)
		if !ok || p.loc == nil {
			in.abort("panic", "nil *bbolt.Tx")
		}
		tx, ok := in.boltTxs[p.loc]
		if !ok {
			in.abort("unsupported", "bbolt.Tx not created by the model")
		}
		return tx
	}
	boltErr := func(in *Interp, name string) Value {
		p := in.prog.ImportedPackage("go.etcd.io/bbolt/errors")
		if p != nil && p.Var(name) != nil {
			return load(in.global(p.Var(name)), errT())
		}
		return in.newErrorString("bbolt: " + name)
	}
	// bbolt.Open: the file lock - a path that is open cannot be opened again (Open gives up with a timeout)
	S[bb+".Open"] = func(in *Interp, fn *ssa.Function, a []Value) Value {
		path, ok := a[0].(StrV).concrete()
		if !ok {
			in.abort("unsupported", "bbolt.Open with a symbolic path")
		}
		for _, db := range in.boltDBs {
			if db.path == path && !db.closed {
				return TupleV{[]Value{PtrV{}, boltErr(in, "ErrTimeout")}}
			}
		}
		l := &Loc{v: BVu(8, 0)}
		in.boltDBs[l] = &boltDB{path: path, buckets: map[string]*boltBucket{}}
		return TupleV{[]Value{PtrV{loc: l}, IfaceV{}}}
	}
	in.intrinsics["vboltlocked"] = func(in *Interp, args []Value) Value {
		path, _ := args[0].(StrV).concrete()
		for _, db := range in.boltDBs {
			if db.path == path && !db.closed {
				return Bool(true)
			}
		}
		return Bool(false)
	}
	in.intrinsics["vboltfaults"] = func(in *Interp, args []Value) Value {
		dbOf(in, args[0]).faults = args[1].(*Term).True()
		return nil
	}
	in.intrinsics["vboltopentx"] = func(in *Interp, args []Value) Value {
		db := dbOf(in, args[0])
		n := db.openRead
		if db.writer != nil {
			n++
		}
		return BVi(64, int64(n))
	}
	envFault := func(in *Interp, db *boltDB) bool {
		return db.faults && in.choose(func() []int { return []int{0, 1} }) == 1
	}
	// managed transactions: the closure's panic rolls the transaction back and keeps unwinding
	managed := func(in *Interp, db *boltDB, writable bool, f FuncV) Value {
		if db.closed {
			return boltErr(in, "ErrDatabaseNotOpen")
		}
		tx := in.boltBegin(db, writable)
		var r IfaceV
		func() {
			defer func() {
				if !tx.closed {
					if x := recover(); x != nil {
						in.boltEnd(tx, false)
						panic(x)
					}
				}
			}()
			r = in.call(f.fn, []Value{in.txVal(tx)}, f.binds).(IfaceV)
		}()
		if tx.closed {
			in.abort("panic", "bbolt: managed transaction was committed or rolled back by the closure")
		}
		if r.t != nil || !writable {
			in.boltEnd(tx, false)
			return r
		}
		if envFault(in, db) {
			in.boltEnd(tx, false)
			return in.newErrorString("bbolt: commit failed (environment fault)")
		}
		in.boltEnd(tx, true)
		return IfaceV{}
	}
	S["(*"+bb+".DB).View"] = func(in *Interp, fn *ssa.Function, a []Value) Value {
		return managed(in, dbOf(in, a[0]), false, a[1].(FuncV))
	}
	S["(*"+bb+".DB).Update"] = func(in *Interp, fn *ssa.Function, a []Value) Value {
		return managed(in, dbOf(in, a[0]), true, a[1].(FuncV))
	}
	S["(*"+bb+".DB).Begin"] = func(in *Interp, fn *ssa.Function, a []Value) Value {
		db := dbOf(in, a[0])
		if db.closed {
			return TupleV{[]Value{PtrV{}, boltErr(in, "ErrDatabaseNotOpen")}}
		}
		return TupleV{[]Value{in.txVal(in.boltBegin(db, a[1].(*Term).True())), IfaceV{}}}
	}
	S["(*"+bb+".DB).Close"] = func(in *Interp, fn *ssa.Function, a []Value) Value {
		db := dbOf(in, a[0])
		if db.openRead > 0 || db.writer != nil {
			in.finding("deadlock", "bbolt: Close waits for a transaction that is never finished (blocks forever)", nil)
			in.abort("infeasible", "close deadlock")
		}
		db.closed = true
		return IfaceV{}
	}
	S["(*"+bb+".DB).Path"] = func(in *Interp, fn *ssa.Function, a []Value) Value { return strConst("verif.db") }
	S["(*"+bb+".Tx).Writable"] = func(in *Interp, fn *ssa.Function, a []Value) Value { return Bool(txOf(in, a[0]).writable) }
	S["(*"+bb+".Tx).Size"] = func(in *Interp, fn *ssa.Function, a []Value) Value { return BVi(64, 4096) }
	S["(*"+bb+".Tx).Commit"] = func(in *Interp, fn *ssa.Function, a []Value) Value {
		tx := txOf(in, a[0])
		if tx.closed {
			return boltErr(in, "ErrTxClosed")
		}
		if !tx.writable {
			return boltErr(in, "ErrTxNotWritable")
		}
		if envFault(in, tx.db) {
			in.boltEnd(tx, false) // a failed commit rolls the transaction back
			return in.newErrorString("bbolt: commit failed (environment fault)")
		}
		in.boltEnd(tx, true)
		return IfaceV{}
	}
	S["(*"+bb+".Tx).Rollback"] = func(in *Interp, fn *ssa.Function, a []Value) Value {
		tx := txOf(in, a[0])
		if tx.closed {
			return boltErr(in, "ErrTxClosed")
		}
		in.boltEnd(tx, false)
		return IfaceV{}
	}
	S["(*"+bb+".Tx).CopyFile"] = func(in *Interp, fn *ssa.Function, a []Value) Value {
		tx := txOf(in, a[0])
		if tx.closed {
			return boltErr(in, "ErrTxClosed")
		}
		if p, ok := a[1].(StrV).concrete(); ok && strings.HasPrefix(p, "/nonexistent") {
			return in.notExistErr() // the harness's way to make the copy fail natively as well
		}
		return IfaceV{}
	}
	bucketHandle := func(in *Interp, tx *boltTx, name string) Value {
		b, ok := tx.work[name]
		if !ok {
			return PtrV{}
		}
		l, ok := tx.handles[name]
		if !ok {
			l = &Loc{v: BVu(8, 0)}
			tx.handles[name] = l
			in.bolts[l] = b
		}
		return PtrV{loc: l}
	}
	nameOf := func(in *Interp, v Value) string {
		bs := sliceBytes(v.(SliceV))
		s, ok := StrV{bs}.concrete()
		if !ok {
			in.abort("unsupported", "bbolt bucket name with symbolic bytes")
		}
		return s
	}
	S["(*"+bb+".Tx).Bucket"] = func(in *Interp, fn *ssa.Function, a []Value) Value {
		tx := txOf(in, a[0])
		if tx.closed {
			in.abort("panic", "bbolt transaction used after it ended")
		}
		return bucketHandle(in, tx, nameOf(in, a[1]))
	}
	S["(*"+bb+".Tx).CreateBucketIfNotExists"] = func(in *Interp, fn *ssa.Function, a []Value) Value {
		tx := txOf(in, a[0])
		if tx.closed {
			return TupleV{[]Value{PtrV{}, boltErr(in, "ErrTxClosed")}}
		}
		if !tx.writable {
			return TupleV{[]Value{PtrV{}, boltErr(in, "ErrTxNotWritable")}}
		}
		name := nameOf(in, a[1])
		if _, ok := tx.work[name]; !ok {
			tx.work[name] = &boltBucket{tx: tx}
		}
		return TupleV{[]Value{bucketHandle(in, tx, name), IfaceV{}}}
	}
	S["(*"+bb+".Tx).DeleteBucket"] = func(in *Interp, fn *ssa.Function, a []Value) Value {
		tx := txOf(in, a[0])
		if tx.closed {
			return boltErr(in, "ErrTxClosed")
		}
		if !tx.writable {
			return boltErr(in, "ErrTxNotWritable")
		}
		name := nameOf(in, a[1])
		if _, ok := tx.work[name]; !ok {
			return boltErr(in, "ErrBucketNotFound")
		}
		delete(tx.work, name)
		delete(tx.handles, name)
		return IfaceV{}
	}
	S["(*"+bb+".Bucket).Writable"] = func(in *Interp, fn *ssa.Function, a []Value) Value {
		b := in.boltOf(a[0])
		return Bool(b.tx == nil || b.tx.writable)
	}
	S["(*"+bb+".Bucket).Get"] = func(in *Interp, fn *ssa.Function, a []Value) Value {
		b := in.boltOf(a[0])
		k := sliceBytes(a[1].(SliceV))
		for i := range b.keys {
			if in.branch(Eq(cmpBytesTerm(k, b.keys[i]), BVi(64, 0))) {
				return b.vals[i]
			}
		}
		return SliceV{isNil: true}
	}
	S["(*"+bb+".Bucket).Put"] = func(in *Interp, fn *ssa.Function, a []Value) Value {
		if b := in.boltOf(a[0]); b.tx != nil && !b.tx.writable {
			return in.newErrorString("bbolt: tx not writable")
		}
		in.boltPut(in.boltOf(a[0]), sliceBytes(a[1].(SliceV)), a[2])
		return IfaceV{}
	}
	S["(*"+bb+".Bucket).Delete"] = func(in *Interp, fn *ssa.Function, a []Value) Value {
		b := in.boltOf(a[0])
		if b.tx != nil && !b.tx.writable {
			return in.newErrorString("bbolt: tx not writable")
		}
		k := sliceBytes(a[1].(SliceV))
		for i := range b.keys {
			if in.branch(Eq(cmpBytesTerm(k, b.keys[i]), BVi(64, 0))) {
				b.keys = append(b.keys[:i:i], b.keys[i+1:]...)
				b.vals = append(b.vals[:i:i], b.vals[i+1:]...)
				break
			}
		}
		return IfaceV{}
	}
	S["(*"+bb+".Bucket).ForEach"] = func(in *Interp, fn *ssa.Function, a []Value) Value {
		b := in.boltOf(a[0])
		f := a[1].(FuncV)
		for i := 0; i < len(b.keys); i++ {
			r := in.call(f.fn, []Value{bytesSlice(b.keys[i]), b.vals[i]}, f.binds).(IfaceV)
			if r.t != nil {
				return r
			}
		}
		return IfaceV{}
	}
	S["(*"+bb+".Bucket).Cursor"] = func(in *Interp, fn *ssa.Function, a []Value) Value {
		l := &Loc{v: BVu(8, 0)}
		in.cursors[l] = &boltCursor{b: in.boltOf(a[0]), pos: -1}
		return PtrV{loc: l}
	}
	cur := func(in *Interp, v Value) *boltCursor { return in.cursors[v.(PtrV).loc] }
	S["(*"+bb+".Cursor).First"] = func(in *Interp, fn *ssa.Function, a []Value) Value {
		c := cur(in, a[0])
		c.pos = 0
		return in.cursorKV(c)
	}
	S["(*"+bb+".Cursor).Next"] = func(in *Interp, fn *ssa.Function, a []Value) Value {
		c := cur(in, a[0])
		if c.pos < len(c.b.keys) {
			c.pos++
		}
		return in.cursorKV(c)
	}
	S["(*"+bb+".Cursor).Seek"] = func(in *Interp, fn *ssa.Function, a []Value) Value {
		c := cur(in, a[0])
		k := sliceBytes(a[1].(SliceV))
		c.pos = len(c.b.keys)
		for i := range c.b.keys {
			if in.branch(CmpBV("bvsle", cmpBytesTerm(k, c.b.keys[i]), BVi(64, 0))) {
				c.pos = i
				break
			}
		}
		return in.cursorKV(c)
	}
}

// ---- bits-and-blooms/bitset: a bit set is (length, members); Set beyond the length grows it,
// Test beyond the length is false (the library's documented behaviour).
type bitsetObj struct {
	length uint64
	elems  []*Term
}

func (in *Interp) installBitsetStubs() {
	S := in.stubs
	const bs = "github.com/bits-and-blooms/bitset"
	obj := func(in *Interp, v Value) *bitsetObj {
		p, ok := v.(PtrV)
		if !ok || p.loc == nil {
			in.abort("panic", "nil *bitset.BitSet")
		}
		o, ok := in.bitsets[p.loc]
		if !ok {
			in.abort("unsupported", "bitset not created through bitset.New")
		}
		return o
	}
	S[bs+".New"] = func(in *Interp, fn *ssa.Function, a []Value) Value {
		n := a[0].(*Term)
		if !n.IsConst() {
			in.abort("unsupported", "bitset.New with symbolic length")
		}
		l := &Loc{v: BVu(8, 0)}
		in.bitsets[l] = &bitsetObj{length: n.Uint()}
		return PtrV{loc: l}
	}
	S["(*"+bs+".BitSet).ClearAll"] = func(in *Interp, fn *ssa.Function, a []Value) Value {
		obj(in, a[0]).elems = nil
		return a[0]
	}
	S["(*"+bs+".BitSet).Len"] = func(in *Interp, fn *ssa.Function, a []Value) Value {
		return BVu(64, obj(in, a[0]).length)
	}
	S["(*"+bs+".BitSet).Test"] = func(in *Interp, fn *ssa.Function, a []Value) Value {
		o := obj(in, a[0])
		i := a[1].(*Term)
		if !in.branch(CmpBV("bvult", i, BVu(64, o.length))) {
			return Bool(false)
		}
		for _, e := range o.elems {
			if in.branch(Eq(e, i)) {
				return Bool(true)
			}
		}
		return Bool(false)
	}
	S["(*"+bs+".BitSet).Set"] = func(in *Interp, fn *ssa.Function, a []Value) Value {
		o := obj(in, a[0])
		i := a[1].(*Term)
		if !in.branch(CmpBV("bvult", i, BVu(64, o.length))) {
			if !i.IsConst() {
				v := in.concretize(i, 0, 1<<22, false)
				i = BVu(64, uint64(v))
			}
			o.length = i.Uint() + 1
		}
		for _, e := range o.elems {
			if in.branch(Eq(e, i)) {
				return a[0]
			}
		}
		o.elems = append(o.elems, i)
		return a[0]
	}
}

// ---- strings.Builder / strings.Join: byte buffers without the unsafe tricks of the real ones
func (in *Interp) installStringStubs() {
	S := in.stubs
	buf := func(in *Interp, v Value) *[]*Term {
		l := v.(PtrV).loc
		b, ok := in.builders[l]
		if !ok {
			b = &[]*Term{}
			in.builders[l] = b
		}
		return b
	}
	S["(*strings.Builder).Grow"] = func(in *Interp, fn *ssa.Function, a []Value) Value { buf(in, a[0]); return nil }
	S["(*strings.Builder).Reset"] = func(in *Interp, fn *ssa.Function, a []Value) Value { *buf(in, a[0]) = nil; return nil }
	S["(*strings.Builder).Len"] = func(in *Interp, fn *ssa.Function, a []Value) Value {
		return BVi(64, int64(len(*buf(in, a[0]))))
	}
	S["(*strings.Builder).String"] = func(in *Interp, fn *ssa.Function, a []Value) Value {
		return StrV{append([]*Term{}, *buf(in, a[0])...)}
	}
	S["(*strings.Builder).WriteString"] = func(in *Interp, fn *ssa.Function, a []Value) Value {
		b := buf(in, a[0])
		s := a[1].(StrV)
		*b = append(*b, s.b...)
		return TupleV{[]Value{BVi(64, int64(len(s.b))), IfaceV{}}}
	}
	S["(*strings.Builder).WriteByte"] = func(in *Interp, fn *ssa.Function, a []Value) Value {
		b := buf(in, a[0])
		*b = append(*b, a[1].(*Term))
		return IfaceV{}
	}
	S["(*strings.Builder).Write"] = func(in *Interp, fn *ssa.Function, a []Value) Value {
		b := buf(in, a[0])
		s := sliceBytes(a[1].(SliceV))
		*b = append(*b, s...)
		return TupleV{[]Value{BVi(64, int64(len(s))), IfaceV{}}}
	}
	S["strings.Join"] = func(in *Interp, fn *ssa.Function, a []Value) Value {
		el, sep := a[0].(SliceV), a[1].(StrV)
		var out []*Term
		for i := 0; i < el.n; i++ {
			if i > 0 {
				out = append(out, sep.b...)
			}
			out = append(out, el.arr[el.off+i].get().(StrV).b...)
		}
		return StrV{out}
	}
	S["internal/bytealg.MakeNoZero"] = func(in *Interp, fn *ssa.Function, a []Value) Value {
		n := int(in.concretize(a[0].(*Term), 0, 1<<16, true))
		arr := make([]*Loc, n)
		for i := range arr {
			arr[i] = &Loc{v: BVu(8, 0)}
		}
		return SliceV{arr: arr, n: n, cp: n}
	}
	S["internal/bytealg.IndexByteString"] = func(in *Interp, fn *ssa.Function, a []Value) Value {
		s, c := a[0].(StrV), a[1].(*Term)
		for i, b := range s.b {
			if in.branch(Eq(b, c)) {
				return BVi(64, int64(i))
			}
		}
		return BVi(64, -1)
	}
	S["internal/bytealg.IndexByte"] = func(in *Interp, fn *ssa.Function, a []Value) Value {
		s, c := sliceBytes(a[0].(SliceV)), a[1].(*Term)
		for i, b := range s {
			if in.branch(Eq(b, c)) {
				return BVi(64, int64(i))
			}
		}
		return BVi(64, -1)
	}
	S["internal/bytealg.CountString"] = func(in *Interp, fn *ssa.Function, a []Value) Value {
		s, c := a[0].(StrV), a[1].(*Term)
		n := int64(0)
		for _, b := range s.b {
			if in.branch(Eq(b, c)) {
				n++
			}
		}
		return BVi(64, n)
	}
	S["internal/stringslite.HasPrefix"] = S["strings.HasPrefix"]
}
