package symgo

import (
	"fmt"
	"os"
	"path/filepath"
	"strings"

	"golang.org/x/tools/go/packages"
	"golang.org/x/tools/go/ssa"
	"golang.org/x/tools/go/ssa/ssautil"
)

// GoBinDir returns the directory of the go toolchain that /repo's go.mod asks
// for (cached toolchain module), or "" to use whatever `go` is on PATH.
func GoBinDir() string {
	if d := os.Getenv("VERIF_GOBIN"); d != "" {
		return d
	}
	home, _ := os.UserHomeDir()
	cands := []string{
		filepath.Join(home, "go/pkg/mod/golang.org/toolchain@v0.0.1-go1.24.3.linux-amd64/bin"),
		"/root/go/pkg/mod/golang.org/toolchain@v0.0.1-go1.24.3.linux-amd64/bin",
	}
	for _, c := range cands {
		if _, err := os.Stat(filepath.Join(c, "go")); err == nil {
			return c
		}
	}
	return ""
}

func GoEnv() []string {
	env := os.Environ()
	out := env[:0:0]
	for _, e := range env {
		if strings.HasPrefix(e, "GOFLAGS=") || strings.HasPrefix(e, "GOPROXY=") || strings.HasPrefix(e, "GOTOOLCHAIN=") || strings.HasPrefix(e, "GOSUMDB=") || strings.HasPrefix(e, "PATH=") {
			continue
		}
		out = append(out, e)
	}
	path := os.Getenv("PATH")
	if d := GoBinDir(); d != "" {
		path = d + ":" + path
	}
	out = append(out, "PATH="+path, "GOFLAGS=-mod=mod", "GOPROXY=off", "GOTOOLCHAIN=local", "GOSUMDB=off")
	return out
}

// Load type-checks repoDir/pkgRel (with the overlay files placed into it) and
// all dependencies from source and builds SSA with generics instantiated.
func Load(repoDir string, pkgRels []string, overlay map[string][]byte) (*ssa.Program, map[string]*ssa.Package, error) {
	if d := GoBinDir(); d != "" {
		os.Setenv("PATH", d+":"+os.Getenv("PATH")) // go/packages looks `go` up through the process PATH
	}
	cfg := &packages.Config{
		Mode:    packages.LoadAllSyntax,
		Dir:     repoDir,
		Overlay: overlay,
		Env:     GoEnv(),
	}
	pats := make([]string, len(pkgRels))
	for i, p := range pkgRels {
		pats[i] = "./" + p
	}
	pkgs, err := packages.Load(cfg, pats...)
	if err != nil {
		return nil, nil, err
	}
	var errs []string
	packages.Visit(pkgs, nil, func(p *packages.Package) {
		for _, e := range p.Errors {
			errs = append(errs, e.Pos+": "+e.Msg)
		}
	})
	if len(errs) > 0 {
		if len(errs) > 10 {
			errs = errs[:10]
		}
		return nil, nil, fmt.Errorf("load errors:\n%s", strings.Join(errs, "\n"))
	}
	prog, spkgs := ssautil.AllPackages(pkgs, ssa.InstantiateGenerics)
	prog.Build()
	out := map[string]*ssa.Package{}
	for i, p := range spkgs {
		if p != nil {
			out[pkgRels[i]] = p
		}
	}
	return prog, out, nil
}
