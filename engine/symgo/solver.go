package symgo

import (
	"bufio"
	"fmt"
	"io"
	"math/big"
	"os/exec"
	"regexp"
	"strings"
	"time"
)

// Solver drives one persistent SMT-LIB2 solver process (z3 -in / cvc5 --incremental).
// The assertion stack mirrors the path condition prefix; only the last term of a
// query is asserted inside a throw-away push/pop frame.
type Solver struct {
	cmd      *exec.Cmd
	in       io.WriteCloser
	out      *bufio.Reader
	declared map[string]bool
	Queries  int
	Unknowns int
	stack    []string
	Time     time.Duration
	Log      io.Writer
	Bin      string
	dead     bool
}

func NewSolver(timeoutMs int, bin string, args ...string) *Solver {
	cmd := exec.Command(bin, args...)
	in, _ := cmd.StdinPipe()
	outp, _ := cmd.StdoutPipe()
	cmd.Stderr = cmd.Stdout
	if err := cmd.Start(); err != nil {
		panic(err)
	}
	s := &Solver{cmd: cmd, in: in, out: bufio.NewReader(outp), declared: map[string]bool{}, Bin: bin}
	s.send("(set-option :print-success false)")
	s.send("(set-option :global-declarations true)")
	if strings.Contains(bin, "z3") && timeoutMs > 0 {
		s.send(fmt.Sprintf("(set-option :timeout %d)", timeoutMs))
	}
	s.send("(set-logic ALL)")
	return s
}

func (s *Solver) send(line string) {
	if s.Log != nil {
		fmt.Fprintln(s.Log, line)
	}
	if _, err := io.WriteString(s.in, line+"\n"); err != nil {
		s.dead = true
	}
}

func sortOf(w int) string {
	if w == 0 {
		return "Bool"
	}
	return fmt.Sprintf("(_ BitVec %d)", w)
}

func (s *Solver) declare(t *Term) {
	switch t.op {
	case "var":
		if !s.declared[t.name] {
			s.declared[t.name] = true
			s.send(fmt.Sprintf("(declare-const %s %s)", t.name, sortOf(t.w)))
		}
		return
	case "uf":
		if !s.declared[t.name] {
			s.declared[t.name] = true
			var sb strings.Builder
			for i, a := range t.args {
				if i > 0 {
					sb.WriteByte(' ')
				}
				sb.WriteString(sortOf(a.w))
			}
			s.send(fmt.Sprintf("(declare-fun %s (%s) %s)", t.name, sb.String(), sortOf(t.w)))
		}
	}
	for _, a := range t.args {
		s.declare(a)
	}
}

// Check returns "sat", "unsat" or "unknown..." for the conjunction of terms.
// If wantModel is non-empty and the result is sat, the values of those terms are returned.
func (s *Solver) Check(terms []*Term, wantModel []*Term) (string, map[string]*big.Int) {
	if s.dead {
		return "unknown-solver-dead", nil
	}
	t0 := time.Now()
	s.Queries++
	base := terms
	var last *Term
	if len(terms) > 0 {
		base = terms[:len(terms)-1]
		last = terms[len(terms)-1]
	}
	k := 0
	for k < len(base) && k < len(s.stack) && s.stack[k] == base[k].String() {
		k++
	}
	if k < len(s.stack) {
		s.send(fmt.Sprintf("(pop %d)", len(s.stack)-k))
		s.stack = s.stack[:k]
	}
	for ; k < len(base); k++ {
		s.declare(base[k])
		s.send("(push)")
		s.send("(assert " + base[k].String() + ")")
		s.stack = append(s.stack, base[k].String())
	}
	s.send("(push)")
	if last != nil {
		s.declare(last)
		s.send("(assert " + last.String() + ")")
	}
	s.send("(check-sat)")
	res := s.readLine()
	var model map[string]*big.Int
	if res == "sat" && len(wantModel) > 0 {
		model = map[string]*big.Int{}
		var sb strings.Builder
		sb.WriteString("(get-value (")
		for _, v := range wantModel {
			s.declare(v)
			sb.WriteString(v.String())
			sb.WriteByte(' ')
		}
		sb.WriteString("))")
		s.send(sb.String())
		l := s.readSexp()
		if strings.HasPrefix(strings.TrimSpace(l), "(error") {
			res = "unknown-error: " + l
		} else {
			vals := parseValues(l)
			for i, v := range wantModel {
				if i < len(vals) && vals[i] != nil {
					model[v.String()] = vals[i]
				}
			}
		}
	}
	s.send("(pop)")
	s.Time += time.Since(t0)
	if res != "sat" && res != "unsat" {
		s.Unknowns++
	}
	return res, model
}

// parseValues extracts the value literals (#x.., #b.., true, false, (_ bvN w)) from a get-value reply, in order.
func parseValues(l string) []*big.Int {
	var out []*big.Int
	// reply: ((term value) (term value) ...). Values are the last token before each closing of a pair at depth 2.
	depth := 0
	i := 0
	n := len(l)
	for i < n {
		c := l[i]
		switch c {
		case '(':
			depth++
			i++
		case ')':
			depth--
			i++
		default:
			if depth == 2 {
				// read the key s-expression/token, then the value
				// skip whitespace
				for i < n && (l[i] == ' ' || l[i] == '\n' || l[i] == '\t' || l[i] == '\r') {
					i++
				}
				if i >= n || l[i] == ')' {
					continue
				}
				// key
				i = skipSexp(l, i)
				for i < n && (l[i] == ' ' || l[i] == '\n' || l[i] == '\t' || l[i] == '\r') {
					i++
				}
				j := skipSexp(l, i)
				out = append(out, parseLit(strings.TrimSpace(l[i:j])))
				i = j
				// now expect ')'
			} else {
				i++
			}
		}
	}
	return out
}

func skipSexp(l string, i int) int {
	n := len(l)
	if i >= n {
		return i
	}
	if l[i] == '(' {
		d := 0
		for i < n {
			if l[i] == '(' {
				d++
			} else if l[i] == ')' {
				d--
				if d == 0 {
					return i + 1
				}
			}
			i++
		}
		return i
	}
	if l[i] == '|' {
		i++
		for i < n && l[i] != '|' {
			i++
		}
		return i + 1
	}
	for i < n && l[i] != ' ' && l[i] != ')' && l[i] != '\n' && l[i] != '\t' {
		i++
	}
	return i
}

func parseLit(s string) *big.Int {
	switch {
	case s == "true":
		return big.NewInt(1)
	case s == "false":
		return big.NewInt(0)
	case strings.HasPrefix(s, "#x"):
		v, ok := new(big.Int).SetString(s[2:], 16)
		if ok {
			return v
		}
	case strings.HasPrefix(s, "#b"):
		v, ok := new(big.Int).SetString(s[2:], 2)
		if ok {
			return v
		}
	case strings.HasPrefix(s, "(_ bv"):
		f := strings.Fields(s[5:])
		if len(f) > 0 {
			v, ok := new(big.Int).SetString(f[0], 10)
			if ok {
				return v
			}
		}
	}
	return nil
}

func (s *Solver) readLine() string {
	for {
		l, err := s.out.ReadString('\n')
		if err != nil {
			s.dead = true
			return "unknown-eof"
		}
		l = strings.TrimSpace(l)
		if l == "" {
			continue
		}
		if strings.HasPrefix(l, "(error") {
			// drain a possibly following sat/unsat line: with z3 an error line is emitted
			// instead of executing the command, check-sat still answers afterwards.
			nl, _ := s.out.ReadString('\n')
			return "unknown-error: " + l + " / " + strings.TrimSpace(nl)
		}
		return l
	}
}

func (s *Solver) readSexp() string {
	var sb strings.Builder
	depth := 0
	started := false
	for {
		l, err := s.out.ReadString('\n')
		if err != nil {
			s.dead = true
			return sb.String()
		}
		sb.WriteString(l)
		for _, ch := range l {
			if ch == '(' {
				depth++
				started = true
			} else if ch == ')' {
				depth--
			}
		}
		if started && depth <= 0 {
			return sb.String()
		}
	}
}

func (s *Solver) Close() {
	s.send("(exit)")
	s.in.Close()
	done := make(chan struct{})
	go func() { s.cmd.Wait(); close(done) }()
	select {
	case <-done:
	case <-time.After(2 * time.Second):
		s.cmd.Process.Kill()
	}
}

// Raw sends a command without reading a reply (declarations, permanent assertions).
func (s *Solver) Raw(cmd string) { s.send(cmd) }

// RawCheck runs one query in a push/pop frame: assertion text, check-sat, optional integer model.
func (s *Solver) RawCheck(assertion string, names []string) (string, map[string]*big.Int) {
	t0 := time.Now()
	s.Queries++
	s.send("(push)")
	s.send(assertion)
	s.send("(check-sat)")
	res := s.readLine()
	var model map[string]*big.Int
	if res == "sat" && len(names) > 0 {
		s.send("(get-value (" + strings.Join(names, " ") + "))")
		l := s.readSexp()
		model = map[string]*big.Int{}
		vals := parseIntValues(l)
		for i, n := range names {
			if i < len(vals) {
				model[n] = vals[i]
			}
		}
	}
	s.send("(pop)")
	s.Time += time.Since(t0)
	return res, model
}

var intValRe = regexp.MustCompile(`\(\s*([A-Za-z_][A-Za-z0-9_]*)\s+(\(-\s*\d+\)|\d+)\s*\)`)

func parseIntValues(l string) []*big.Int {
	var out []*big.Int
	for _, m := range intValRe.FindAllStringSubmatch(l, -1) {
		t := strings.TrimSpace(m[2])
		neg := false
		if strings.HasPrefix(t, "(") {
			neg = true
			t = strings.Trim(t, "()- ")
		}
		v, ok := new(big.Int).SetString(strings.TrimSpace(t), 10)
		if !ok {
			v = big.NewInt(0)
		}
		if neg {
			v.Neg(v)
		}
		out = append(out, v)
	}
	return out
}
