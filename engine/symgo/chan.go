package symgo

import (
	"fmt"
	"go/token"
	"go/types"

	"golang.org/x/tools/go/ssa"
)

type ChanObj struct {
	cap     int
	buf     []Value
	closed  bool
	waiters []*waiter
}
type ChanV struct{ c *ChanObj }

type offer struct {
	ch   *ChanObj
	send bool
	val  Value
	zero Value
}
type waiter struct {
	t       *Thread
	offers  []offer
	done    bool
	chosen  int
	recvVal Value
	recvOk  bool
}

func (in *Interp) completeWaiter(w *waiter, idx int, v Value, ok bool) {
	w.done, w.chosen, w.recvVal, w.recvOk = true, idx, v, ok
	for _, o := range w.offers {
		if o.ch == nil {
			continue
		}
		ws := o.ch.waiters[:0]
		for _, x := range o.ch.waiters {
			if x != w {
				ws = append(ws, x)
			}
		}
		o.ch.waiters = ws
	}
}

func findWaiter(ch *ChanObj, wantSend bool, not *Thread) (*waiter, int) {
	for _, w := range ch.waiters {
		if w.done || w.t == not {
			continue
		}
		for i, o := range w.offers {
			if o.ch == ch && o.send == wantSend {
				return w, i
			}
		}
	}
	return nil, -1
}

// chanOp performs a (possibly multi-way) channel operation. Returns chosen index
// (-1 for default), received value and ok.
func (in *Interp) chanOp(offers []offer, hasDefault bool) (int, Value, bool) {
	in.schedule(true)
	var ready []int
	for i, o := range offers {
		if o.ch == nil {
			continue
		}
		if o.send {
			if o.ch.closed {
				in.abort("panic", "send on closed channel")
			}
			if len(o.ch.buf) < o.ch.cap {
				ready = append(ready, i)
			} else if w, _ := findWaiter(o.ch, false, in.cur); w != nil {
				ready = append(ready, i)
			}
		} else {
			if len(o.ch.buf) > 0 || o.ch.closed {
				ready = append(ready, i)
			} else if w, _ := findWaiter(o.ch, true, in.cur); w != nil {
				ready = append(ready, i)
			}
		}
	}
	if len(ready) > 0 {
		k := ready[0]
		if len(ready) > 1 && in.cfg.ExploreSelect {
			r := ready
			k = in.choose(func() []int { return r })
		}
		o := offers[k]
		if o.send {
			if w, wi := findWaiter(o.ch, false, in.cur); w != nil && len(o.ch.buf) == 0 {
				in.completeWaiter(w, wi, o.val, true)
			} else {
				o.ch.buf = append(o.ch.buf, o.val)
			}
			return k, nil, false
		}
		if len(o.ch.buf) > 0 {
			v := o.ch.buf[0]
			o.ch.buf = o.ch.buf[1:]
			if w, wi := findWaiter(o.ch, true, in.cur); w != nil {
				o.ch.buf = append(o.ch.buf, w.offers[wi].val)
				in.completeWaiter(w, wi, nil, false)
			}
			return k, v, true
		}
		if w, wi := findWaiter(o.ch, true, in.cur); w != nil {
			v := w.offers[wi].val
			in.completeWaiter(w, wi, nil, false)
			return k, v, true
		}
		return k, o.zero, false // closed
	}
	if hasDefault {
		return -1, nil, false
	}
	w := &waiter{t: in.cur, offers: offers}
	for _, o := range offers {
		if o.ch != nil {
			o.ch.waiters = append(o.ch.waiters, w)
		}
	}
	in.blockUntil(func() bool { return w.done })
	return w.chosen, w.recvVal, w.recvOk
}

func (in *Interp) closeChan(ch *ChanObj) {
	if ch == nil || ch.closed {
		in.abort("panic", "close of nil or closed channel")
	}
	ch.closed = true
	for {
		w, wi := findWaiter(ch, false, nil)
		if w == nil {
			break
		}
		in.completeWaiter(w, wi, w.offers[wi].zero, false)
	}
	if w, _ := findWaiter(ch, true, nil); w != nil {
		in.abort("panic", "send on closed channel (waiting sender)")
	}
	in.schedule(true)
}

func (in *Interp) execSelect(fr *Frame, x *ssa.Select) Value {
	offers := make([]offer, len(x.States))
	for i, st := range x.States {
		ch := in.get(fr, st.Chan).(ChanV).c
		et := st.Chan.Type().Underlying().(*types.Chan).Elem()
		offers[i] = offer{ch: ch, send: st.Dir == types.SendOnly, zero: zero(et)}
		if st.Send != nil {
			offers[i].val = in.get(fr, st.Send)
		}
	}
	k, v, ok := in.chanOp(offers, !x.Blocking)
	res := []Value{BVi(64, int64(k)), Bool(ok)}
	for i, st := range x.States {
		if st.Dir == types.RecvOnly {
			if i == k {
				res = append(res, v)
			} else {
				res = append(res, offers[i].zero)
			}
		}
	}
	return TupleV{res}
}

func (in *Interp) execRecv(fr *Frame, x *ssa.UnOp) Value {
	ch := in.get(fr, x.X).(ChanV).c
	et := x.X.Type().Underlying().(*types.Chan).Elem()
	if ch == nil {
		in.blockUntil(func() bool { return false })
	}
	_, v, ok := in.chanOp([]offer{{ch: ch, zero: zero(et)}}, false)
	if x.CommaOk {
		return TupleV{[]Value{v, Bool(ok)}}
	}
	return v
}

// ---- native context model
type CtxObj struct {
	done     *ChanObj
	err      Value
	cause    Value
	parent   *CtxObj
	children []*CtxObj
	key, val Value // context.WithValue
}

func (in *Interp) canceledErr() Value {
	p := in.prog.ImportedPackage("context")
	return load(in.global(p.Var("Canceled")), types.Universe.Lookup("error").Type())
}

func (in *Interp) newCtx(parent *CtxObj) *CtxObj {
	c := &CtxObj{done: &ChanObj{}, parent: parent, err: IfaceV{}, cause: IfaceV{}}
	if parent != nil {
		parent.children = append(parent.children, c)
		if parent.done.closed {
			in.cancelCtx(c, parent.err, parent.cause)
		}
	}
	return c
}

func (in *Interp) cancelCtx(c *CtxObj, err, cause Value) {
	if c.done.closed {
		return
	}
	c.err = err
	if cause.(IfaceV).t == nil {
		cause = err
	}
	c.cause = cause
	in.closeChan(c.done)
	for _, ch := range c.children {
		in.cancelCtx(ch, err, cause)
	}
}

var ctxType types.Type

func (in *Interp) ctxVal(c *CtxObj) Value {
	return IfaceV{t: types.Typ[types.UnsafePointer], v: c}
}

func (in *Interp) installCtxStubs() {
	S := in.stubs
	S["context.Background"] = func(in *Interp, fn *ssa.Function, a []Value) Value { return in.ctxVal(&CtxObj{done: &ChanObj{}, err: IfaceV{}, cause: IfaceV{}}) }
	S["context.WithCancel"] = func(in *Interp, fn *ssa.Function, a []Value) Value {
		c := in.newCtx(a[0].(IfaceV).v.(*CtxObj))
		cancel := FuncV{native: func(in *Interp, args []Value) Value {
			in.cancelCtx(c, in.canceledErr(), IfaceV{})
			return nil
		}}
		return TupleV{[]Value{in.ctxVal(c), cancel}}
	}
	S["context.WithCancelCause"] = func(in *Interp, fn *ssa.Function, a []Value) Value {
		c := in.newCtx(a[0].(IfaceV).v.(*CtxObj))
		cancel := FuncV{native: func(in *Interp, args []Value) Value {
			in.cancelCtx(c, in.canceledErr(), args[0])
			return nil
		}}
		return TupleV{[]Value{in.ctxVal(c), cancel}}
	}
	S["context.WithValue"] = func(in *Interp, fn *ssa.Function, a []Value) Value {
		par := a[0].(IfaceV).v.(*CtxObj)
		// shares the parent's cancellation state
		return in.ctxVal(&CtxObj{done: par.done, err: par.err, cause: par.cause, parent: par, key: a[1], val: a[2]})
	}
	S["context.Cause"] = func(in *Interp, fn *ssa.Function, a []Value) Value {
		return a[0].(IfaceV).v.(*CtxObj).cause
	}
}

func (in *Interp) ctxMethod(c *CtxObj, name string, args []Value) Value {
	switch name {
	case "Done":
		return ChanV{c.done}
	case "Err":
		for p := c; p != nil; p = p.parent {
			if p.key == nil {
				return p.err
			}
		}
		return c.err
	case "Value":
		for p := c; p != nil; p = p.parent {
			if p.key != nil && in.branch(in.valEq(p.key, args[0])) {
				return p.val
			}
		}
		return IfaceV{}
	}
	in.abort("unsupported", "context method "+name)
	return nil
}

var _ = fmt.Sprint
var _ = token.ADD
