package symgo

import (
	"encoding/json"
	"fmt"
	"go/parser"
	"go/token"
	"os"
	"path/filepath"
	"sort"
	"strings"
	"time"
)

type RunSpec struct {
	RepoDir    string           `json:"repo_dir"`
	HarnessDir string           `json:"harness_dir"`
	Pkg        string           `json:"pkg"`
	Fn         string           `json:"fn"`
	Params     map[string]int64 `json:"params,omitempty"`
	Sched      string           `json:"sched,omitempty"` // "" (sequential/deterministic), "explore", "delay"
	Preempt    int              `json:"preempt,omitempty"`
	Select     bool             `json:"explore_select,omitempty"`
	Unstub     []string         `json:"unstub,omitempty"`
	LeakCheck  bool             `json:"leak_check,omitempty"`
	Unwind     int              `json:"unwind,omitempty"`
	MaxPaths   int              `json:"max_paths,omitempty"`
	MaxSteps   int64            `json:"max_steps,omitempty"`
	MapOrder   int              `json:"map_order_max,omitempty"`
	TimeoutMs  int              `json:"timeout_ms,omitempty"`
	Solver     string           `json:"solver,omitempty"`
	Prefix     []int            `json:"prefix,omitempty"`
	Redirects  map[string]string `json:"redirects,omitempty"`
	Concrete   [][]uint64       `json:"concrete,omitempty"`
	Progress   bool             `json:"progress,omitempty"`
	SplitN     int              `json:"split_n,omitempty"`
	SplitI     int              `json:"split_i,omitempty"`
	SplitDepth int              `json:"split_depth,omitempty"`
	SampleEnds int              `json:"sample_ends,omitempty"`
	LogQueries string           `json:"log_queries,omitempty"`
	WithPkgs   []string         `json:"with_pkgs,omitempty"`
	AbstractConv bool           `json:"abstract_conv,omitempty"`
	ExactFloat bool             `json:"exact_float,omitempty"`
}

type ConcreteOutcome struct {
	AssumeFailed bool     `json:"assume_failed"`
	Fails        []string `json:"fails"`
	Panic        string   `json:"panic,omitempty"`
	Obs          []string `json:"obs"`
	Unsupported  string   `json:"unsupported,omitempty"`
}

type Result struct {
	Fn           string            `json:"fn"`
	Pkg          string            `json:"pkg"`
	Paths        int               `json:"paths"`
	Instrs       int64             `json:"instrs"`
	Queries      int               `json:"queries"`
	ModelHits    int               `json:"model_hits"`
	Asserts      int               `json:"asserts"`
	SolverS      float64           `json:"solver_s"`
	LoadS        float64           `json:"load_s"`
	ExploreS     float64           `json:"explore_s"`
	Covers       map[string]int    `json:"covers"`
	Inconclusive map[string]int    `json:"inconclusive"`
	Findings     []*Finding        `json:"findings"`
	Funcs        []string          `json:"funcs"`
	Concrete     []ConcreteOutcome `json:"concrete,omitempty"`
	Error        string            `json:"error,omitempty"`
	Completed    int               `json:"completed"`
	EndSamples   [][]uint64        `json:"end_samples,omitempty"`
	CoverSamples map[string][]NondetVal `json:"cover_samples,omitempty"`
	SolverBin    string            `json:"solver_bin"`
}

// PackageName returns the package clause name of the non-test Go files in dir.
func PackageName(dir string) (string, error) {
	ents, err := os.ReadDir(dir)
	if err != nil {
		return "", err
	}
	for _, e := range ents {
		n := e.Name()
		if !strings.HasSuffix(n, ".go") || strings.HasSuffix(n, "_test.go") {
			continue
		}
		f, err := parser.ParseFile(token.NewFileSet(), filepath.Join(dir, n), nil, parser.PackageClauseOnly)
		if err == nil {
			return f.Name.Name, nil
		}
	}
	return "", fmt.Errorf("no go files in %s", dir)
}

// Overlay builds the overlay map for one harness package: every .go file of
// harnessDir/pkg plus the generated runtime (symbolic flavour).
// OverlayAll merges the overlays of the obligation's package and of additional harness packages
// (their harness files, renames and runtime), e.g. the text index's injected analyser when a
// shard-level harness is run.
func OverlayAll(repoDir, harnessDir, pkg string, with []string) (map[string][]byte, error) {
	ov, err := Overlay(repoDir, harnessDir, pkg, false)
	if err != nil {
		return nil, err
	}
	// with.json in the harness directory: packages whose harness files this package's harnesses import
	if wb, err := os.ReadFile(filepath.Join(harnessDir, pkg, "with.json")); err == nil {
		var always []string
		if err := json.Unmarshal(wb, &always); err != nil {
			return nil, fmt.Errorf("with.json: %v", err)
		}
		with = append(append([]string{}, with...), always...)
	}
	for _, w := range with {
		o2, err := Overlay(repoDir, harnessDir, w, false)
		if err != nil {
			return nil, err
		}
		for k, v := range o2 {
			ov[k] = v
		}
	}
	return ov, nil
}

func Overlay(repoDir, harnessDir, pkg string, native bool) (map[string][]byte, error) {
	pkgDir := filepath.Join(repoDir, pkg)
	name, err := PackageName(pkgDir)
	if err != nil {
		return nil, err
	}
	ov := map[string][]byte{}
	hd := filepath.Join(harnessDir, pkg)
	ents, err := os.ReadDir(hd)
	if err != nil {
		return nil, err
	}
	needDoc, needBolt := false, false
	for _, e := range ents {
		if strings.HasSuffix(e.Name(), ".go") {
			b, err := os.ReadFile(filepath.Join(hd, e.Name()))
			if err != nil {
				return nil, err
			}
			if strings.Contains(string(b), "vdoc(") {
				needDoc = true
			}
			if strings.Contains(string(b), "vboltbucket(") || strings.Contains(string(b), "vboltdb(") || strings.Contains(string(b), "vboltlocked(") {
				needBolt = true
			}
			ov[filepath.Join(pkgDir, e.Name())] = b
		}
	}
	// renames.json: textual renames applied to the package's own files (current /repo text), used to
	// take a function out of the way so that a harness-provided stub of the same name replaces it
	// (RPC transport, storage construction). A pattern that no longer matches is an error.
	if rb, err := os.ReadFile(filepath.Join(hd, "renames.json")); err == nil {
		var ren map[string][][2]string
		if err := json.Unmarshal(rb, &ren); err != nil {
			return nil, fmt.Errorf("renames.json: %v", err)
		}
		for file, pairs := range ren {
			path := filepath.Join(pkgDir, file)
			src, err := os.ReadFile(path)
			if err != nil {
				return nil, err
			}
			text := string(src)
			for _, pr := range pairs {
				if strings.Count(text, pr[0]) != 1 {
					return nil, fmt.Errorf("renames.json: pattern %q occurs %d times in %s (expected once)", pr[0], strings.Count(text, pr[0]), file)
				}
				text = strings.Replace(text, pr[0], pr[1], 1)
			}
			ov[path] = []byte(text)
		}
	}
	ov[filepath.Join(pkgDir, "zz_verif_rt_sym.go")] = []byte(RTSymX(name, needDoc, needBolt))
	ov[filepath.Join(pkgDir, "zz_verif_rt_native.go")] = []byte(RTNativeX(name, needDoc, needBolt))
	return ov, nil
}

func Run(spec RunSpec) *Result {
	res := &Result{Fn: spec.Fn, Pkg: spec.Pkg, Covers: map[string]int{}, Inconclusive: map[string]int{}}
	t0 := time.Now()
	ov, err := OverlayAll(spec.RepoDir, spec.HarnessDir, spec.Pkg, spec.WithPkgs)
	if err != nil {
		res.Error = err.Error()
		return res
	}
	prog, pkgs, err := Load(spec.RepoDir, []string{spec.Pkg}, ov)
	if err != nil {
		res.Error = err.Error()
		return res
	}
	p := pkgs[spec.Pkg]
	if p == nil {
		res.Error = "package not loaded: " + spec.Pkg
		return res
	}
	fn := p.Func(spec.Fn)
	if fn == nil {
		res.Error = "harness function not found: " + spec.Fn
		return res
	}
	res.LoadS = time.Since(t0).Seconds()
	bin := spec.Solver
	if bin == "" {
		bin = os.Getenv("VERIF_SOLVER") // cross-checking the encoding with another solver
	}
	if bin == "" {
		bin = "z3"
	}
	tmo := spec.TimeoutMs
	if tmo == 0 {
		tmo = 10000
	}
	var sv *Solver
	if strings.Contains(bin, "cvc5") {
		sv = NewSolver(tmo, bin, "--incremental", "--produce-models", "--lang=smt2", fmt.Sprintf("--tlimit-per=%d", tmo))
	} else {
		sv = NewSolver(tmo, bin, "-in")
	}
	res.SolverBin = bin
	if spec.LogQueries != "" {
		f, _ := os.Create(spec.LogQueries)
		sv.Log = f
		defer f.Close()
	}
	defer sv.Close()
	cfg := Config{
		RepoPfx:       "github.com/semafind/semadb",
		MaxPreempt:    spec.Preempt,
		DelayMode:     spec.Sched == "delay",
		FreezeMode:    spec.Sched == "freeze",
		DetSched:      spec.Sched == "" || spec.Sched == "det",
		ExploreSelect: spec.Select,
		Unstub:        spec.Unstub,
		LeakCheck:     spec.LeakCheck,
		MaxSteps:      spec.MaxSteps,
		Unwind:        spec.Unwind,
		MaxPaths:      spec.MaxPaths,
		MapOrderMax:   spec.MapOrder,
		Params:        spec.Params,
		Redirects:     spec.Redirects,
		Prefix:        spec.Prefix,
		Progress:      spec.Progress,
		AbstractConv:  spec.AbstractConv,
		ExactFloat:    spec.ExactFloat,
		SplitN:        spec.SplitN,
		SplitI:        spec.SplitI,
		SplitDepth:    spec.SplitDepth,
		SampleEnds:    spec.SampleEnds,
	}
	if spec.Sched == "explore" {
		cfg.DetSched = false
	}
	t1 := time.Now()
	in := New(prog, sv, cfg)
	in.HarnessPkg = p
	if len(spec.Concrete) > 0 {
		for _, vec := range spec.Concrete {
			res.Concrete = append(res.Concrete, in.RunConcrete(fn, vec))
		}
	} else {
		in.RunAll(fn)
		res.Completed = in.Completed
		res.EndSamples = in.EndSamples
		res.CoverSamples = in.CoverSamples
		paths, instrs := in.Paths, in.Instrs
		for _, vec := range in.EndSamples {
			res.Concrete = append(res.Concrete, in.RunConcrete(fn, vec))
		}
		in.Paths, in.Instrs = paths, instrs
	}
	res.ExploreS = time.Since(t1).Seconds()
	res.Paths = in.Paths
	res.Instrs = in.Instrs
	res.Queries = sv.Queries
	res.ModelHits = in.ModelHits
	res.Asserts = in.Asserts
	res.SolverS = sv.Time.Seconds()
	res.Covers = in.Covers
	res.Inconclusive = in.Unsup
	res.Findings = in.Findings
	for f := range in.Funcs {
		res.Funcs = append(res.Funcs, f)
	}
	sort.Strings(res.Funcs)
	return res
}
