package symgo

import (
	"fmt"
	"strings"
	"go/token"
	"go/types"
	"math"
	"math/big"

	"golang.org/x/tools/go/ssa"
)

func (in *Interp) binop(op token.Token, a, b Value, ta, tb types.Type) Value {
	// noescape idiom: uintptr(p) ^ 0 keeps the pointer
	if pa, ok := a.(PtrV); ok && op == token.XOR {
		if tb, ok := b.(*Term); ok && tb.IsConst() && tb.c.Sign() == 0 {
			return pa
		}
	}
	// equality on non-scalars
	switch op {
	case token.EQL:
		if _, ok := a.(*Term); !ok || isFloat(ta) {
			if isFloat(ta) {
				return FCmp("fp.eq", a.(*Term), b.(*Term))
			}
			return in.eqAny(a, b)
		}
	case token.NEQ:
		if _, ok := a.(*Term); !ok || isFloat(ta) {
			if isFloat(ta) {
				return Not(FCmp("fp.eq", a.(*Term), b.(*Term)))
			}
			return Not(in.eqAny(a, b))
		}
	}
	if sa, ok := a.(StrV); ok {
		sb := b.(StrV)
		switch op {
		case token.ADD:
			return StrV{append(append([]*Term{}, sa.b...), sb.b...)}
		case token.LSS, token.LEQ, token.GTR, token.GEQ:
			c := cmpBytesTerm(sa.b, sb.b) // -1,0,1 as a 64-bit term, no forking
			z := BVi(64, 0)
			switch op {
			case token.LSS:
				return CmpBV("bvslt", c, z)
			case token.LEQ:
				return CmpBV("bvsle", c, z)
			case token.GTR:
				return CmpBV("bvslt", z, c)
			default:
				return CmpBV("bvsle", z, c)
			}
		}
		in.abort("unsupported", "string op "+op.String())
	}
	x, y := a.(*Term), b.(*Term)
	if x.IsBool() {
		switch op {
		case token.EQL:
			return Eq(x, y)
		case token.NEQ:
			return Not(Eq(x, y))
		case token.AND, token.LAND:
			return And(x, y)
		case token.OR, token.LOR:
			return Or(x, y)
		}
		in.abort("unsupported", "bool op "+op.String())
	}
	if isFloat(ta) {
		switch op {
		case token.LSS:
			return FCmp("fp.lt", x, y)
		case token.LEQ:
			return FCmp("fp.leq", x, y)
		case token.GTR:
			return FCmp("fp.gt", x, y)
		case token.GEQ:
			return FCmp("fp.geq", x, y)
		}
		return in.farith(op, x, y)
	}
	signed := isSigned(ta)
	switch op {
	case token.ADD:
		return BinBV("bvadd", x, y)
	case token.SUB:
		return BinBV("bvsub", x, y)
	case token.MUL:
		return BinBV("bvmul", x, y)
	case token.QUO, token.REM:
		if !in.branch(Not(Eq(y, BVu(y.w, 0)))) {
			in.abort("panic", "integer divide by zero")
		}
		if op == token.QUO {
			if signed {
				return BinBV("bvsdiv", x, y)
			}
			return BinBV("bvudiv", x, y)
		}
		if signed {
			return BinBV("bvsrem", x, y)
		}
		return BinBV("bvurem", x, y)
	case token.AND:
		return BinBV("bvand", x, y)
	case token.OR:
		return BinBV("bvor", x, y)
	case token.XOR:
		return BinBV("bvxor", x, y)
	case token.AND_NOT:
		return BinBV("bvand", x, NotBV(y))
	case token.SHL, token.SHR:
		// shift count: unsigned or (assumed) non-negative; saturate to width
		sh := y
		if sh.w > x.w {
			over := Not(CmpBV("bvult", sh, BVu(sh.w, uint64(x.w))))
			lowsh := Extract(x.w-1, 0, sh)
			var r *Term
			if op == token.SHL {
				r = BinBV("bvshl", x, lowsh)
			} else if signed {
				r = BinBV("bvashr", x, lowsh)
			} else {
				r = BinBV("bvlshr", x, lowsh)
			}
			if op == token.SHR && signed {
				return Ite(over, BinBV("bvashr", x, BVu(x.w, uint64(x.w-1))), r)
			}
			return Ite(over, BVu(x.w, 0), r)
		}
		sh = ZeroExt(sh, x.w)
		if op == token.SHL {
			return BinBV("bvshl", x, sh)
		}
		if signed {
			return BinBV("bvashr", x, sh)
		}
		return BinBV("bvlshr", x, sh)
	case token.EQL:
		return Eq(x, y)
	case token.NEQ:
		return Not(Eq(x, y))
	case token.LSS:
		if signed {
			return CmpBV("bvslt", x, y)
		}
		return CmpBV("bvult", x, y)
	case token.LEQ:
		if signed {
			return CmpBV("bvsle", x, y)
		}
		return CmpBV("bvule", x, y)
	case token.GTR:
		if signed {
			return CmpBV("bvslt", y, x)
		}
		return CmpBV("bvult", y, x)
	case token.GEQ:
		if signed {
			return CmpBV("bvsle", y, x)
		}
		return CmpBV("bvule", y, x)
	}
	in.abort("unsupported", "binop "+op.String())
	return nil
}

func (in *Interp) farith(op token.Token, x, y *Term) Value {
	if allConst(x, y) {
		a, b := fval(x), fval(y)
		var r float64
		switch op {
		case token.ADD:
			r = a + b
		case token.SUB:
			r = a - b
		case token.MUL:
			r = a * b
		case token.QUO:
			r = a / b
		}
		if x.w == 32 {
			var r32 float32
			fa, fb := float32(a), float32(b)
			switch op {
			case token.ADD:
				r32 = fa + fb
			case token.SUB:
				r32 = fa - fb
			case token.MUL:
				r32 = fa * fb
			case token.QUO:
				r32 = fa / fb
			}
			return BVu(32, uint64(math.Float32bits(r32)))
		}
		return BVu(64, math.Float64bits(r))
	}
	if in.cfg.ExactFloat {
		// exact mode: one SMT FloatingPoint operation (round to nearest even), result as bits
		name := map[token.Token]string{token.ADD: "fp.add", token.SUB: "fp.sub", token.MUL: "fp.mul", token.QUO: "fp.div"}[op]
		return in.fpConvExact(fmt.Sprintf("(%s RNE %s %s)", name, toFP(x), toFP(y)), x.w, x, y)
	}
	// abstract mode: uninterpreted functions over the IEEE bit patterns, with
	// sound syntactic normalisations (commutativity, a-b = a+(-b), sign of products).
	w := x.w
	sign := BV(w, new(big.Int).Lsh(one, uint(w-1)))
	neg := func(t *Term) *Term { return BinBV("bvxor", t, sign) }
	isNeg := func(t *Term) (*Term, bool) {
		if t.op == "bvxor" && len(t.args) == 2 && t.args[1].IsConst() && t.args[1].c.Cmp(sign.c) == 0 {
			return t.args[0], true
		}
		return nil, false
	}
	isOne := func(t *Term) (bool, bool) { // (isOne, negative)
		if !t.IsConst() {
			return false, false
		}
		f := fval(t)
		return f == 1 || f == -1, f == -1
	}
	switch op {
	case token.SUB:
		return in.farith(token.ADD, x, neg(y))
	case token.MUL, token.QUO:
		flip := false
		if t, ok := isNeg(x); ok {
			x, flip = t, !flip
		}
		if t, ok := isNeg(y); ok {
			y, flip = t, !flip
		}
		var r *Term
		if o, n := isOne(y); o {
			r = x
			if n {
				flip = !flip
			}
		} else if o, n := isOne(x); o && op == token.MUL {
			r = y
			if n {
				flip = !flip
			}
		} else {
			name := "fmul"
			if op == token.QUO {
				name = "fdiv"
			} else if x.String() > y.String() {
				x, y = y, x
			}
			r = UF(fmt.Sprintf("%s%d", name, w), w, x, y)
		}
		if flip {
			return neg(r)
		}
		return r
	}
	// ADD
	if x.String() > y.String() {
		x, y = y, x
	}
	return UF(fmt.Sprintf("fadd%d", w), w, x, y)
}

func (in *Interp) eqAny(a, b Value) *Term {
	// nil comparisons for slices, maps, funcs
	switch x := a.(type) {
	case SliceV:
		if y, ok := b.(SliceV); ok && y.isNil {
			return Bool(x.isNil)
		}
		if x.isNil {
			return Bool(b.(SliceV).isNil)
		}
	case MapV:
		if y, ok := b.(MapV); ok && y.m == nil {
			return Bool(x.m == nil)
		}
		if x.m == nil {
			return Bool(b.(MapV).m == nil)
		}
	case FuncV:
		return Bool(x.fn == nil && b.(FuncV).fn == nil)
	}
	return in.valEq(a, b)
}

// cmpBytesTerm is the lexicographic three-way comparison of two byte sequences
// as one term (-1, 0, 1 as int): the common prefix is compared as one wide
// big-endian bit-vector, ties are decided by the (concrete) lengths.
func cmpBytesTerm(a, b []*Term) *Term {
	n := len(a)
	if len(b) < n {
		n = len(b)
	}
	tie := int64(0)
	switch {
	case len(a) < len(b):
		tie = -1
	case len(a) > len(b):
		tie = 1
	}
	if n == 0 {
		return BVi(64, tie)
	}
	var A, B *Term
	for i := 0; i < n; i++ {
		if A == nil {
			A, B = a[i], b[i]
		} else {
			A, B = Concat(A, a[i]), Concat(B, b[i])
		}
	}
	return Ite(CmpBV("bvult", A, B), BVi(64, -1), Ite(Eq(A, B), BVi(64, tie), BVi(64, 1)))
}

// three-way string compare by forking (lexicographic, bytes)
func (in *Interp) strCmp(a, b StrV) int {
	n := len(a.b)
	if len(b.b) < n {
		n = len(b.b)
	}
	for i := 0; i < n; i++ {
		if in.branch(Eq(a.b[i], b.b[i])) {
			continue
		}
		if in.branch(CmpBV("bvult", a.b[i], b.b[i])) {
			return -1
		}
		return 1
	}
	switch {
	case len(a.b) < len(b.b):
		return -1
	case len(a.b) > len(b.b):
		return 1
	}
	return 0
}

func (in *Interp) convert(v Value, from, to types.Type) Value {
	fu, tu := from.Underlying(), to.Underlying()
	switch t := tu.(type) {
	case *types.Basic:
		if t.Info()&types.IsString != 0 {
			switch x := v.(type) {
			case StrV:
				return x
			case SliceV: // []byte -> string
				b := make([]*Term, x.n)
				for i := 0; i < x.n; i++ {
					b[i] = x.arr[x.off+i].get().(*Term)
				}
				return StrV{b}
			case *Term: // rune/int -> string
				if x.IsConst() && x.Uint() < 0x80 {
					return StrV{[]*Term{BVu(8, x.Uint())}}
				}
			}
			in.abort("unsupported", "convert to string from "+from.String())
		}
		if t.Kind() == types.UnsafePointer {
			return v
		}
		x, ok := v.(*Term)
		if !ok {
			if p, isP := v.(PtrV); isP {
				return p
			}
			in.abort("unsupported", fmt.Sprintf("convert %T to %s", v, to))
		}
		fb := fu.(*types.Basic)
		fw, fs := intWidth(fb)
		tw, _ := intWidth(t)
		fromF := fb.Info()&types.IsFloat != 0
		toF := t.Info()&types.IsFloat != 0
		switch {
		case !fromF && !toF:
			return Resize(x, tw, fs)
		case fromF && toF:
			if fw == tw {
				return x
			}
			if x.IsConst() {
				f := fval(x)
				if tw == 32 {
					return BVu(32, uint64(math.Float32bits(float32(f))))
				}
				return BVu(64, math.Float64bits(f))
			}
			return in.fpConv(fmt.Sprintf("((_ to_fp %s) RNE %s)", fpSort(tw), toFP(x)), tw, x)
		case !fromF && toF:
			if x.IsConst() {
				var f float64
				if fs {
					f = float64(x.Int())
				} else {
					f = float64(x.Uint())
				}
				if tw == 32 {
					return BVu(32, uint64(math.Float32bits(float32(f))))
				}
				return BVu(64, math.Float64bits(f))
			}
			opn := "to_fp_unsigned"
			if fs {
				opn = "to_fp"
			}
			return in.fpConv(fmt.Sprintf("((_ %s %s) RNE %s)", opn, fpSort(tw), x), tw, x)
		default: // float -> int
			if x.IsConst() {
				f := fval(x)
				if _, s := intWidth(t); s {
					return BVi(tw, int64(f))
				}
				return BVu(tw, uint64(f))
			}
			in.abort("unsupported", "symbolic float->int")
		}
	case *types.Slice:
		if s, ok := v.(StrV); ok { // string -> []byte
			arr := make([]*Loc, len(s.b))
			for i, c := range s.b {
				arr[i] = &Loc{v: c}
			}
			return SliceV{arr: arr, n: len(arr), cp: len(arr)}
		}
		return v
	case *types.Pointer:
		// unsafe.Pointer -> *T: reinterpretation of scalar cells of another width (little-endian)
		if p, ok := v.(PtrV); ok && p.loc != nil && p.loc.sub == nil {
			if bt, isT := p.loc.get().(*Term); isT {
				vw := widthOf(t.Elem())
				if vw != 0 && bt.w != 0 && vw != bt.w {
					base := []*Loc{p.loc}
					if p.arr != nil {
						base = p.arr[p.idx:]
					}
					if vw > bt.w && len(base)*bt.w < vw {
						in.abort("panic", "pointer cast reads beyond the underlying allocation")
					}
					vl := &Loc{view: &viewCell{base: base, bw: bt.w, vw: vw, idx: 0}}
					return PtrV{loc: vl, arr: p.arr, idx: p.idx}
				}
			}
		}
		return v
	}
	in.abort("unsupported", "convert "+from.String()+" -> "+to.String())
	return nil
}

// fpConvExact: result bits r with (to_fp r) = expr, always with FP semantics
func (in *Interp) fpConvExact(expr string, w int, deps ...*Term) *Term {
	// the IEEE bit pattern of the FP-sorted expression, as a deterministic term
	return Raw(w, "(fp.to_ieee_bv "+expr+")", deps...)
}

// result bits r with (to_fp r) = expr
func (in *Interp) fpConv(expr string, w int, deps ...*Term) *Term {
	if in.cfg.AbstractConv {
		// abstract mode: conversions are uninterpreted functions of their operand (per operator and widths)
		op := expr
		if i := strings.Index(expr, ")"); i > 0 {
			op = expr[:i]
		}
		name := "conv_" + hexName(op) + fmt.Sprintf("_%d", deps[0].w)
		return UF(name, w, deps[0])
	}
	return Raw(w, "(fp.to_ieee_bv "+expr+")", deps...)
}

var _ = big.NewInt
var _ = ssa.Function{}
