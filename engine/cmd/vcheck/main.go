// vcheck: driver for the solver-based checks of /verif.
//
//	vcheck check --property C19 --tier quick     run every obligation of a property, replay, write evidence
//	vcheck run <spec.json>                        worker: one obligation (prints a Result as JSON)
//	vcheck replay <file>                          re-run a recorded counterexample natively
//	vcheck one --pkg P --fn F [--param k=v ...]   ad-hoc run of one harness (development)
package main

import (
	"encoding/json"
	"flag"
	"fmt"
	"os"
	"strconv"
	"strings"

	"verif/engine/symgo"
)

func main() {
	if len(os.Args) < 2 {
		fmt.Fprintln(os.Stderr, "usage: vcheck check|run|replay|one ...")
		os.Exit(2)
	}
	switch os.Args[1] {
	case "run":
		b, err := os.ReadFile(os.Args[2])
		if err != nil {
			fatal(err)
		}
		var spec symgo.RunSpec
		if err := json.Unmarshal(b, &spec); err != nil {
			fatal(err)
		}
		res := symgo.Run(spec)
		out, _ := json.Marshal(res)
		if len(os.Args) > 3 {
			os.WriteFile(os.Args[3], out, 0o644)
		} else {
			os.Stdout.Write(out)
		}
	case "one":
		fs := flag.NewFlagSet("one", flag.ExitOnError)
		pkg := fs.String("pkg", "", "package dir relative to the repo")
		fn := fs.String("fn", "", "harness function")
		sched := fs.String("sched", "", "det|explore|delay")
		preempt := fs.Int("preempt", 0, "preemption bound")
		unwind := fs.Int("unwind", 0, "unwind bound")
		maxPaths := fs.Int("maxpaths", 0, "path limit")
		logq := fs.String("logq", "", "log solver queries")
		solver := fs.String("solver", "z3", "solver binary")
		sel := fs.Bool("select", false, "explore select alternatives")
		unstub := fs.String("unstub", "", "comma separated environment models to switch off")
		exactFloat := fs.Bool("exact-float", false, "IEEE floating point arithmetic instead of abstract float operations")
		samples := fs.Int("samples", 0, "path-end samples")
		mapOrder := fs.Int("maporder", 0, "explore iteration orders of maps up to this size")
		splitN := fs.Int("splitn", 0, "")
		splitI := fs.Int("spliti", 0, "")
		splitD := fs.Int("splitdepth", 0, "")
		var params, redirs, withs multi
		fs.Var(&withs, "with", "additional harness package")
		fs.Var(&params, "param", "k=v")
		fs.Var(&redirs, "redirect", "function=harnessFunction")
		fs.Parse(os.Args[2:])
		spec := symgo.RunSpec{RepoDir: repoDir(), HarnessDir: verifDir() + "/harness", Pkg: *pkg, Fn: *fn, Sched: *sched, Preempt: *preempt,
			Unwind: *unwind, MaxPaths: *maxPaths, LogQueries: *logq, Solver: *solver, Progress: true, Select: *sel, Unstub: splitNonEmpty(*unstub), ExactFloat: *exactFloat, SampleEnds: *samples,
			SplitN: *splitN, SplitI: *splitI, SplitDepth: *splitD, MapOrder: *mapOrder, Params: map[string]int64{}}
		for _, p := range params {
			kv := strings.SplitN(p, "=", 2)
			v, _ := strconv.ParseInt(kv[1], 10, 64)
			spec.Params[kv[0]] = v
		}
		spec.WithPkgs = withs
		for _, r := range redirs {
			kv := strings.SplitN(r, "=", 2)
			if spec.Redirects == nil {
				spec.Redirects = map[string]string{}
			}
			spec.Redirects[kv[0]] = kv[1]
		}
		res := symgo.Run(spec)
		printResult(res)
	case "check":
		os.Exit(cmdCheck(os.Args[2:]))
	case "replay":
		os.Exit(cmdReplay(os.Args[2:]))
	default:
		fmt.Fprintln(os.Stderr, "unknown command", os.Args[1])
		os.Exit(2)
	}
}

type multi []string

func (m *multi) String() string     { return strings.Join(*m, ",") }
func (m *multi) Set(s string) error { *m = append(*m, s); return nil }

func fatal(err error) {
	fmt.Fprintln(os.Stderr, "vcheck:", err)
	os.Exit(2)
}

func repoDir() string {
	if d := os.Getenv("VERIF_REPO"); d != "" {
		return d
	}
	return "/repo"
}

func verifDir() string {
	if d := os.Getenv("VERIF_DIR"); d != "" {
		return d
	}
	return "/verif"
}

func printResult(res *symgo.Result) {
	if res.Error != "" {
		fmt.Println("ERROR:", res.Error)
		return
	}
	fmt.Printf("harness=%s load=%.1fs explore=%.2fs paths=%d completed=%d instrs=%d queries=%d model_hits=%d solver=%.2fs asserts=%d\n",
		res.Fn, res.LoadS, res.ExploreS, res.Paths, res.Completed, res.Instrs, res.Queries, res.ModelHits, res.SolverS, res.Asserts)
	fmt.Println("covers:", res.Covers)
	for k, v := range res.Inconclusive {
		fmt.Println("INCONCLUSIVE", v, k)
	}
	for _, f := range res.Findings {
		b, _ := json.Marshal(f)
		fmt.Println("FINDING", string(b))
	}
	for i, c := range res.Concrete {
		b, _ := json.Marshal(c)
		fmt.Println("CONCRETE", i, string(b))
	}
	fmt.Println("funcs:", len(res.Funcs))
}

func splitNonEmpty(s string) []string {
	if s == "" {
		return nil
	}
	return strings.Split(s, ",")
}
