package main

import (
	"fmt"
	"math/big"
	"path/filepath"
	"strings"
	"time"

	"verif/engine/symasm"
	"verif/engine/symgo"
)

// asmLengths expands a tier's length specification: params LO..HI plus the fixed boundary list.
func asmLengths(t Tier) []int64 {
	lo, hi := t.Params["LO"], t.Params["HI"]
	seen := map[int64]bool{}
	var out []int64
	add := func(n int64) {
		if n >= 0 && !seen[n] {
			seen[n] = true
			out = append(out, n)
		}
	}
	for n := lo; n <= hi; n++ {
		add(n)
	}
	if t.Params["BOUNDARY"] == 1 {
		for _, n := range []int64{127, 128, 129, 255, 256, 257, 1023, 1024, 1025, 4064, 4065, 4095, 4096} {
			add(n)
		}
	}
	return out
}

func specTerm(spec string, n int64) string {
	s := "0"
	for i := int64(0); i < n; i++ {
		var t string
		if spec == "dot" {
			t = fmt.Sprintf("(* x%d y%d)", i, i)
		} else {
			t = fmt.Sprintf("(* (- x%d y%d) (- x%d y%d))", i, i, i, i)
		}
		s = "(+ " + s + " " + t + ")"
	}
	return s
}

// runAsmObligation decides one kernel for every listed length with one z3 process.
func runAsmObligation(o *Obligation, tier Tier) *symgo.Result {
	res := &symgo.Result{Fn: o.AsmFunc, Pkg: o.Pkg, Covers: map[string]int{}, Inconclusive: map[string]int{}, SolverBin: "z3"}
	t0 := time.Now()
	prog, err := symasm.Parse(filepath.Join(repoDir(), o.AsmFile), o.AsmFunc)
	if err != nil {
		res.Error = err.Error()
		return res
	}
	res.Funcs = []string{o.AsmFile + ":" + o.AsmFunc}
	sv := symgo.NewSolver(60000, "z3", "-in")
	defer sv.Close()
	elemXY := func(base string, i int64) string { return fmt.Sprintf("%s%d", base, i) }
	elemYX := func(base string, i int64) string {
		if base == "x" {
			return fmt.Sprintf("y%d", i)
		}
		return fmt.Sprintf("x%d", i)
	}
	declared := int64(0)
	var decls []string
	addFinding := func(kind, label string, n int64, model map[string]*big.Int) {
		for _, f := range res.Findings {
			if f.Label == label {
				f.Count++
				return
			}
		}
		f := &symgo.Finding{Kind: kind, Label: label, Count: 1}
		f.Nondets = append(f.Nondets, symgo.NondetVal{Name: "n", Width: 64, Val: fmt.Sprint(n)})
		for i := int64(0); i < n; i++ {
			for _, b := range []string{"x", "y"} {
				v := big.NewInt(0)
				if model != nil {
					if mv, ok := model[fmt.Sprintf("%s%d", b, i)]; ok {
						v = mv
					}
				}
				u := new(big.Int).Set(v)
				if u.Sign() < 0 {
					u.Add(u, new(big.Int).Lsh(big.NewInt(1), 64))
				}
				f.Nondets = append(f.Nondets, symgo.NondetVal{Name: fmt.Sprintf("%s%d", b, i), Width: 64, Val: u.String()})
			}
		}
		res.Findings = append(res.Findings, f)
	}
	for _, n := range asmLengths(tier) {
		res.Paths++
		r := symasm.Run(prog, n, elemXY)
		res.Instrs += int64(r.Steps)
		if r.Err != "" {
			res.Inconclusive["unsupported: asm "+r.Err]++
			continue
		}
		bad := false
		for _, a := range r.Accesses {
			if a.Off < 0 || a.Off+a.Width > 4*n {
				addFinding("assert", fmt.Sprintf("memory-operand-within-slice (line %d reads %s[%d..%d) of %d bytes)", a.Line, a.Base, a.Off, a.Off+a.Width, 4*n), n, nil)
				bad = true
				break
			}
		}
		if bad {
			continue
		}
		rs := symasm.Run(prog, n, elemYX)
		for ; declared < n; declared++ {
			decls = append(decls, fmt.Sprintf("x%d", declared), fmt.Sprintf("y%d", declared))
			sv.Raw(fmt.Sprintf("(declare-const x%d Int)(declare-const y%d Int)(assert (and (<= (- 2) x%d 2) (<= (- 2) y%d 2)))", declared, declared, declared, declared))
		}
		names := decls[:2*n]
		for _, q := range []struct{ label, a, b string }{
			{"kernel-equals-definition", r.Ret, specTerm(o.AsmSpec, n)},
			{"kernel-symmetric-in-its-arguments", r.Ret, rs.Ret},
		} {
			res.Asserts++
			ans, model := sv.RawCheck(fmt.Sprintf("(assert (not (= %s %s)))", q.a, q.b), names)
			switch ans {
			case "unsat":
			case "sat":
				addFinding("assert", q.label, n, model)
			default:
				res.Inconclusive["solver: "+ans]++
			}
		}
		res.Covers["reached"]++
		res.Completed++
	}
	res.Queries = sv.Queries
	res.SolverS = sv.Time.Seconds()
	res.ExploreS = time.Since(t0).Seconds()
	_ = strings.TrimSpace
	return res
}
