package main

import (
	"bytes"
	"context"
	"encoding/json"
	"flag"
	"fmt"
	"os"
	"os/exec"
	"path/filepath"
	"regexp"
	"runtime"
	"sort"
	"strconv"
	"strings"
	"sync"
	"time"

	"verif/engine/symgo"
)

type Tier struct {
	Params     map[string]int64 `json:"params,omitempty"`
	Unwind     int              `json:"unwind,omitempty"`
	MaxPaths   int              `json:"max_paths,omitempty"`
	MaxSteps   int64            `json:"max_steps,omitempty"`
	Preempt    int              `json:"preempt,omitempty"`
	Split      int              `json:"split,omitempty"`
	SplitDepth int              `json:"split_depth,omitempty"`
	TimeoutS   int              `json:"timeout_s,omitempty"`
	QueryMs    int              `json:"query_ms,omitempty"`
	Skip       bool             `json:"skip,omitempty"`
}

type Obligation struct {
	Property  string            `json:"property"`
	Name      string            `json:"name"`
	Pkg       string            `json:"pkg"`
	Fn        string            `json:"fn"`
	Desc      string            `json:"desc"`
	Sched     string            `json:"sched,omitempty"`
	Select    bool              `json:"explore_select,omitempty"`
	Unstub    []string          `json:"unstub,omitempty"`
	LeakCheck bool              `json:"leak_check,omitempty"`
	MapOrder  int               `json:"map_order_max,omitempty"`
	Quick     Tier              `json:"quick"`
	Thorough  Tier              `json:"thorough"`
	Covers    []string          `json:"covers,omitempty"`
	Validate  *int              `json:"validate,omitempty"`
	Replay    string            `json:"replay,omitempty"` // native (default) | stress | none
	WitnessOf string            `json:"witness_of,omitempty"`
	Redirects map[string]string `json:"redirects,omitempty"`
	Bounds    string            `json:"bounds,omitempty"`
	Stubs     []string          `json:"stubs,omitempty"`
	Outside   []string          `json:"outside,omitempty"`
	Solver    string            `json:"solver,omitempty"`
	WithPkgs  []string          `json:"with_pkgs,omitempty"`
	AbstractConv bool           `json:"abstract_conv,omitempty"`
	ExactFloat bool             `json:"exact_float,omitempty"`
	Kind      string            `json:"kind,omitempty"` // "" (go harness) | "asm"
	AsmFile   string            `json:"asm_file,omitempty"`
	AsmFunc   string            `json:"asm_func,omitempty"`
	AsmSpec   string            `json:"asm_spec,omitempty"` // dot | euclid
}

type KnownFinding struct {
	ID       string   `json:"id"`
	Property string   `json:"property"`
	Also     []string `json:"also_properties,omitempty"`
	Status   string   `json:"status"` // open | fixed
	What     string   `json:"what"`
	Commit   string   `json:"commit,omitempty"`
	Text     string   `json:"text,omitempty"`
}

type KnownFile struct {
	Findings []KnownFinding `json:"findings"`
}

type obResult struct {
	ob        *Obligation
	tier      Tier
	res       *symgo.Result // merged
	wall      float64
	errs      []string
	timedOut  bool
	natives   map[int]string // validation vector index -> native outcome line
	valid     int            // validated traces
	mismatch  []string
	reproduced map[int]string // finding index -> native result
}

func loadObligations() ([]*Obligation, error) {
	var all []*Obligation
	files, _ := filepath.Glob(filepath.Join(verifDir(), "obligations", "*.json"))
	sort.Strings(files)
	for _, f := range files {
		b, err := os.ReadFile(f)
		if err != nil {
			return nil, err
		}
		var obs []*Obligation
		if err := json.Unmarshal(b, &obs); err != nil {
			return nil, fmt.Errorf("%s: %v", f, err)
		}
		all = append(all, obs...)
	}
	return all, nil
}

func loadKnown() (*KnownFile, error) {
	b, err := os.ReadFile(filepath.Join(verifDir(), "known_findings.json"))
	if err != nil {
		return &KnownFile{}, nil
	}
	var k KnownFile
	if err := json.Unmarshal(b, &k); err != nil {
		return nil, err
	}
	return &k, nil
}

var verifFnRe = regexp.MustCompile(`(?m)^func (Verif\w+)\(\)`)

func harnessFns(pkg string) []string {
	var out []string
	files, _ := filepath.Glob(filepath.Join(verifDir(), "harness", pkg, "*.go"))
	for _, f := range files {
		b, _ := os.ReadFile(f)
		for _, m := range verifFnRe.FindAllStringSubmatch(string(b), -1) {
			out = append(out, m[1])
		}
	}
	sort.Strings(out)
	return out
}

// buildNative compiles the test binary of one harness package (verifnative flavour).
func buildNative(pkg, outDir string, with []string) (string, error) {
	repo := repoDir()
	ov, err := symgo.OverlayAll(repo, filepath.Join(verifDir(), "harness"), pkg, with)
	if err != nil {
		return "", err
	}
	name, _ := symgo.PackageName(filepath.Join(repo, pkg))
	ov[filepath.Join(repo, pkg, "zz_verif_replay_test.go")] = []byte(replayTestAll(name, harnessFns(pkg)))
	dir := filepath.Join(outDir, "native", strings.ReplaceAll(pkg, "/", "_"))
	os.MkdirAll(dir, 0o755)
	repl := map[string]string{}
	fileNo := 0
	for path, content := range ov {
		fileNo++
		real := filepath.Join(dir, fmt.Sprintf("%03d_%s", fileNo, filepath.Base(path)))
		if err := os.WriteFile(real, content, 0o644); err != nil {
			return "", err
		}
		repl[path] = real
	}
	ovj, _ := json.Marshal(map[string]any{"Replace": repl})
	ovFile := filepath.Join(dir, "overlay.json")
	os.WriteFile(ovFile, ovj, 0o644)
	bin := filepath.Join(dir, "harness.test")
	gobin := "go"
	if d := symgo.GoBinDir(); d != "" {
		gobin = filepath.Join(d, "go")
	}
	cmd := exec.Command(gobin, "test", "-c", "-vet=off", "-tags", "verifnative", "-overlay", ovFile, "-o", bin, "./"+pkg)
	cmd.Dir = repo
	cmd.Env = symgo.GoEnv()
	out, err := cmd.CombinedOutput()
	if err != nil {
		return "", fmt.Errorf("native build of %s failed: %v\n%s", pkg, err, out)
	}
	return bin, nil
}

func replayTestAll(pkg string, fns []string) string {
	var sb strings.Builder
	sb.WriteString("var verifHarnesses = map[string]func(){\n")
	for _, f := range fns {
		fmt.Fprintf(&sb, "\t%q: %s,\n", f, f)
	}
	sb.WriteString("}\n")
	base := symgo.ReplayTest(pkg, "verifHarnesses[os.Getenv(\"VERIF_FN\")]")
	return base + "\n" + sb.String()
}

type replayFile struct {
	Property   string           `json:"property,omitempty"`
	Obligation string           `json:"obligation,omitempty"`
	Pkg        string           `json:"pkg"`
	Fn         string           `json:"fn"`
	Params     map[string]int64 `json:"params"`
	Vectors    [][]uint64       `json:"vectors"`
	Finding    *symgo.Finding   `json:"finding,omitempty"`
	Expect     string           `json:"expect,omitempty"`
	WithPkgs   []string         `json:"with_pkgs,omitempty"`
}

var resultRe = regexp.MustCompile(`(?m)^VERIF-REPLAY-RESULT (\d+) (.*)$`)

// runNative runs the vectors of rf through the native harness; returns one outcome string per vector.
func runNative(bin string, rfPath string, rf *replayFile, timeout time.Duration) ([]string, string) {
	ctx, cancel := context.WithTimeout(context.Background(), timeout+5*time.Second)
	defer cancel()
	cmd := exec.CommandContext(ctx, bin, "-test.run", "^TestVerifReplay$", "-test.count=1", "-test.timeout", timeout.String())
	cmd.Dir = filepath.Dir(bin)
	cmd.Env = append(os.Environ(), "VERIF_REPLAY="+rfPath, "VERIF_FN="+rf.Fn)
	out, _ := cmd.CombinedOutput()
	res := make([]string, len(rf.Vectors))
	for _, m := range resultRe.FindAllStringSubmatch(string(out), -1) {
		i, _ := strconv.Atoi(m[1])
		if i < len(res) {
			res[i] = strings.TrimSpace(m[2])
		}
	}
	// a crash (panic in another goroutine, timeout) leaves vectors without a line
	for i := range res {
		if res[i] == "" {
			s := string(out)
			switch {
			case strings.Contains(s, "test timed out"):
				res[i] = "timeout |"
			case strings.Contains(s, "panic:") || strings.Contains(s, "fatal error:"):
				idx := strings.Index(s, "panic:")
				if idx < 0 {
					idx = strings.Index(s, "fatal error:")
				}
				line := s[idx:]
				if j := strings.IndexByte(line, '\n'); j >= 0 {
					line = line[:j]
				}
				res[i] = "crash " + line + " |"
			default:
				res[i] = "no-result |"
			}
			break
		}
	}
	return res, string(out)
}

func nativeOutcome(c symgo.ConcreteOutcome) string {
	switch {
	case c.Unsupported != "":
		return "unsupported"
	case c.AssumeFailed:
		return "assume-failed | " + strings.Join(c.Obs, " ")
	case len(c.Fails) > 0:
		return "assert-fail " + c.Fails[0] + " | " + strings.Join(c.Obs, " ")
	case c.Panic != "":
		return "panic | " + strings.Join(c.Obs, " ")
	}
	return "pass | " + strings.Join(c.Obs, " ")
}

func normNative(s string) string {
	s = strings.TrimSpace(s)
	if strings.HasPrefix(s, "panic ") {
		// message texts differ between the executor and the runtime
		if i := strings.Index(s, "|"); i >= 0 {
			return "panic | " + strings.TrimSpace(s[i+1:])
		}
		return "panic |"
	}
	parts := strings.SplitN(s, "|", 2)
	if len(parts) == 2 {
		return strings.TrimSpace(parts[0]) + " | " + strings.TrimSpace(parts[1])
	}
	return s
}

func findingVector(f *symgo.Finding) []uint64 {
	vec := make([]uint64, len(f.Nondets))
	for i, nd := range f.Nondets {
		v, _ := strconv.ParseUint(nd.Val, 10, 64)
		vec[i] = v
	}
	return vec
}

func cmdCheck(args []string) int {
	fs := flag.NewFlagSet("check", flag.ExitOnError)
	prop := fs.String("property", "", "property id")
	tierName := fs.String("tier", "", "quick|thorough")
	only := fs.String("only", "", "run only obligations whose name contains this")
	keep := fs.Bool("keep", false, "keep scratch output")
	jobs := fs.Int("jobs", 0, "parallel workers")
	fs.Parse(args)
	if *tierName == "" {
		*tierName = os.Getenv("VERIF_TIER")
	}
	if *tierName == "" {
		*tierName = "quick"
	}
	seed, _ := strconv.Atoi(os.Getenv("VERIF_SEED"))
	t0 := time.Now()
	all, err := loadObligations()
	if err != nil {
		fatal(err)
	}
	known, err := loadKnown()
	if err != nil {
		fatal(err)
	}
	var obs []*Obligation
	for _, o := range all {
		if o.Property == *prop && (*only == "" || strings.Contains(o.Name, *only)) {
			obs = append(obs, o)
		}
	}
	if len(obs) == 0 {
		fatal(fmt.Errorf("no obligations for property %q", *prop))
	}
	outDir := filepath.Join(outRoot(), *prop+"-"+*tierName)
	os.RemoveAll(outDir)
	os.MkdirAll(outDir, 0o755)
	if !*keep {
		defer os.RemoveAll(outDir)
	}
	knownParams := map[string]int64{}
	knownByID := map[string]*KnownFinding{}
	for i := range known.Findings {
		k := &known.Findings[i]
		knownByID[k.ID] = k
		if k.Status == "open" {
			knownParams["known_"+k.ID] = 1
		} else {
			knownParams["known_"+k.ID] = 0
		}
	}

	// ---- stage 1: symbolic exploration, one worker process per obligation (or per split share)
	type job struct {
		or   *obResult
		spec symgo.RunSpec
		idx  int
	}
	var results []*obResult
	var jobsList []*job
	var asmJobs []*obResult
	for _, o := range obs {
		tier := o.Quick
		if *tierName == "thorough" {
			tier = o.Thorough
			if tier.Params == nil && tier.Unwind == 0 && tier.Split == 0 && tier.MaxPaths == 0 && tier.Preempt == 0 && !tier.Skip {
				tier = o.Quick
			}
		}
		if tier.Skip {
			continue
		}
		or := &obResult{ob: o, tier: tier}
		results = append(results, or)
		if o.Kind == "asm" {
			asmJobs = append(asmJobs, or)
			continue
		}
		params := map[string]int64{}
		for k, v := range knownParams {
			params[k] = v
		}
		for k, v := range tier.Params {
			params[k] = v
		}
		nval := 8
		if o.Validate != nil {
			nval = *o.Validate
		}
		qms := tier.QueryMs
		if qms == 0 {
			qms = 10000
			if *tierName == "thorough" {
				qms = 60000
			}
		}
		n := tier.Split
		if n < 1 {
			n = 1
		}
		for i := 0; i < n; i++ {
			spec := symgo.RunSpec{RepoDir: repoDir(), HarnessDir: filepath.Join(verifDir(), "harness"), Pkg: o.Pkg, Fn: o.Fn, Params: params,
				Sched: o.Sched, Preempt: tier.Preempt, Select: o.Select, Unstub: o.Unstub, LeakCheck: o.LeakCheck, Unwind: tier.Unwind, MaxPaths: tier.MaxPaths,
				MaxSteps: tier.MaxSteps, MapOrder: o.MapOrder, TimeoutMs: qms, Redirects: o.Redirects, SampleEnds: nval, Solver: o.Solver, AbstractConv: o.AbstractConv, ExactFloat: o.ExactFloat, WithPkgs: o.WithPkgs}
			if n > 1 {
				spec.SplitN, spec.SplitI, spec.SplitDepth = n, i, tier.SplitDepth
				if spec.SplitDepth == 0 {
					spec.SplitDepth = 2
				}
				if i > 0 {
					spec.SampleEnds = 0
				}
			}
			jobsList = append(jobsList, &job{or: or, spec: spec, idx: i})
		}
	}
	nw := *jobs
	if nw == 0 {
		nw = runtime.NumCPU()
	}
	self, _ := os.Executable()
	var mu sync.Mutex
	partial := map[*obResult][]*symgo.Result{}
	sem := make(chan struct{}, nw)
	var wg sync.WaitGroup
	for _, j := range jobsList {
		wg.Add(1)
		sem <- struct{}{}
		go func(j *job) {
			defer wg.Done()
			defer func() { <-sem }()
			ts := time.Now()
			base := filepath.Join(outDir, fmt.Sprintf("%s.%d", j.or.ob.Name, j.idx))
			sb, _ := json.Marshal(j.spec)
			os.WriteFile(base+".spec.json", sb, 0o644)
			tmo := j.or.tier.TimeoutS
			if tmo == 0 {
				tmo = 900
				if *tierName == "thorough" {
					tmo = 5400
				}
			}
			ctx, cancel := context.WithTimeout(context.Background(), time.Duration(tmo)*time.Second)
			defer cancel()
			cmd := exec.CommandContext(ctx, self, "run", base+".spec.json", base+".result.json")
			cmd.Env = append(os.Environ(), "GOMEMLIMIT=6GiB")
			var stderr bytes.Buffer
			cmd.Stderr = &stderr
			cmd.Stdout = &stderr
			err := cmd.Run()
			var res symgo.Result
			b, rerr := os.ReadFile(base + ".result.json")
			mu.Lock()
			defer mu.Unlock()
			j.or.wall += time.Since(ts).Seconds()
			if ctx.Err() != nil {
				j.or.timedOut = true
				j.or.errs = append(j.or.errs, fmt.Sprintf("worker %d timed out after %ds", j.idx, tmo))
				return
			}
			if err != nil || rerr != nil || json.Unmarshal(b, &res) != nil {
				msg := stderr.String()
				if len(msg) > 2000 {
					msg = msg[len(msg)-2000:]
				}
				j.or.errs = append(j.or.errs, fmt.Sprintf("worker %d failed: %v %s", j.idx, err, msg))
				return
			}
			if res.Error != "" {
				j.or.errs = append(j.or.errs, res.Error)
				return
			}
			partial[j.or] = append(partial[j.or], &res)
		}(j)
	}
	for _, or := range asmJobs {
		wg.Add(1)
		sem <- struct{}{}
		go func(or *obResult) {
			defer wg.Done()
			defer func() { <-sem }()
			ts := time.Now()
			r := runAsmObligation(or.ob, or.tier)
			mu.Lock()
			defer mu.Unlock()
			or.wall = time.Since(ts).Seconds()
			if r.Error != "" {
				or.errs = append(or.errs, r.Error)
				return
			}
			partial[or] = append(partial[or], r)
		}(or)
	}
	wg.Wait()
	for _, or := range results {
		or.res = mergeResults(partial[or])
	}

	// ---- stage 2: native runs (translator validation vectors and counterexample replay)
	type nativeReq struct {
		or      *obResult
		rf      *replayFile
		path    string
		kind    string // "validate" | "finding"
		finding int
	}
	byPkg := map[string][]*nativeReq{}
	replayDir := filepath.Join(outRoot(), "replays")
	os.MkdirAll(replayDir, 0o755)
	for _, or := range results {
		if or.res == nil {
			continue
		}
		params := map[string]int64{}
		for k, v := range knownParams {
			params[k] = v
		}
		for k, v := range or.tier.Params {
			params[k] = v
		}
		if len(or.res.EndSamples) > 0 {
			rf := &replayFile{Pkg: or.ob.Pkg, Fn: or.ob.Fn, Params: params, Vectors: or.res.EndSamples}
			p := filepath.Join(outDir, or.ob.Name+".validate.json")
			byPkg[or.ob.Pkg] = append(byPkg[or.ob.Pkg], &nativeReq{or: or, rf: rf, path: p, kind: "validate"})
		}
		if or.ob.Replay != "none" {
			for i, f := range or.res.Findings {
				rf := &replayFile{Property: *prop, Obligation: or.ob.Name, Pkg: or.ob.Pkg, Fn: or.ob.Fn, Params: params, Vectors: [][]uint64{findingVector(f)}, Finding: f, WithPkgs: or.ob.WithPkgs}
				p := filepath.Join(replayDir, fmt.Sprintf("%s-%s-%d.json", *prop, or.ob.Name, i))
				byPkg[or.ob.Pkg] = append(byPkg[or.ob.Pkg], &nativeReq{or: or, rf: rf, path: p, kind: "finding", finding: i})
			}
		}
	}
	var nwg sync.WaitGroup
	for pkg, reqs := range byPkg {
		nwg.Add(1)
		go func(pkg string, reqs []*nativeReq) {
			defer nwg.Done()
			var with []string
			for _, r := range reqs {
				for _, w := range r.or.ob.WithPkgs {
					dup := false
					for _, x := range with {
						if x == w {
							dup = true
						}
					}
					if !dup {
						with = append(with, w)
					}
				}
			}
			bin, err := buildNative(pkg, outDir, with)
			if err != nil {
				mu.Lock()
				for _, r := range reqs {
					r.or.errs = append(r.or.errs, err.Error())
				}
				mu.Unlock()
				return
			}
			var rwg sync.WaitGroup
			for _, r := range reqs {
				rwg.Add(1)
				sem <- struct{}{}
				go func(r *nativeReq) {
					defer rwg.Done()
					defer func() { <-sem }()
					b, _ := json.MarshalIndent(r.rf, "", " ")
					os.WriteFile(r.path, b, 0o644)
					runs := 1
					if r.kind == "finding" && r.or.ob.Replay == "stress" {
						runs = 1000
					}
					deadline := time.Now().Add(180 * time.Second)
					var outs []string
					for k := 0; k < runs; k++ {
						tmo := 60 * time.Second
						if runs > 1 {
							tmo = 10 * time.Second
						}
						outs, _ = runNative(bin, r.path, r.rf, tmo)
						if r.kind != "finding" || !(strings.HasPrefix(outs[0], "pass") || strings.HasPrefix(outs[0], "assume-failed")) || time.Now().After(deadline) {
							break
						}
					}
					mu.Lock()
					defer mu.Unlock()
					if r.kind == "validate" {
						for i, o := range outs {
							want := "?"
							if i < len(r.or.res.Concrete) {
								want = nativeOutcome(r.or.res.Concrete[i])
							}
							if want == "unsupported" {
								continue
							}
							if normNative(o) == normNative(want) {
								r.or.valid++
							} else {
								r.or.mismatch = append(r.or.mismatch, fmt.Sprintf("vector %d: native %q vs executor %q", i, normNative(o), normNative(want)))
							}
						}
					} else {
						if r.or.reproduced == nil {
							r.or.reproduced = map[int]string{}
						}
						r.or.reproduced[r.finding] = outs[0]
					}
				}(r)
			}
			rwg.Wait()
		}(pkg, reqs)
	}
	nwg.Wait()

	// ---- stage 3: verdicts, evidence
	violations := 0
	var lines []string
	obligations, discharged, inconclusive := 0, 0, 0
	var states, transitions, queries, validated int64
	var solverS float64
	var samples []any
	funcs := map[string]bool{}
	var stubs, outside, bounds []string
	for _, or := range results {
		o := or.ob
		obligations++
		ok := true
		if or.res == nil || len(or.errs) > 0 {
			ok = false
			for _, e := range or.errs {
				lines = append(lines, fmt.Sprintf("INCONCLUSIVE property=%s obligation=%s reason=%s", *prop, o.Name, oneLine(e)))
			}
			if or.res == nil {
				inconclusive++
				continue
			}
		}
		res := or.res
		states += int64(res.Paths)
		transitions += res.Instrs
		queries += int64(res.Queries)
		solverS += res.SolverS
		validated += int64(or.valid)
		for _, f := range res.Funcs {
			funcs[f] = true
		}
		for k, n := range res.Inconclusive {
			ok = false
			lines = append(lines, fmt.Sprintf("INCONCLUSIVE property=%s obligation=%s reason=%s (x%d)", *prop, o.Name, oneLine(k), n))
		}
		for _, m := range or.mismatch {
			ok = false
			lines = append(lines, fmt.Sprintf("INCONCLUSIVE property=%s obligation=%s reason=translator-validation-mismatch %s", *prop, o.Name, m))
		}
		covers := o.Covers
		if covers == nil {
			covers = []string{"reached"}
		}
		for _, c := range covers {
			if res.Covers[c] == 0 {
				ok = false
				lines = append(lines, fmt.Sprintf("INCONCLUSIVE property=%s obligation=%s reason=vacuous: cover point %q not reached", *prop, o.Name, c))
			}
		}
		kf := knownByID[o.WitnessOf]
		witnessOpen := kf != nil && kf.Status == "open"
		sawWitness := false
		for i, f := range res.Findings {
			nat, have := or.reproduced[i]
			repro := false
			if o.Replay == "none" {
				repro = true
			} else if have {
				switch f.Kind {
				case "assert":
					repro = strings.HasPrefix(nat, "assert-fail") || strings.HasPrefix(nat, "panic") || strings.HasPrefix(nat, "crash")
				case "panic":
					repro = strings.HasPrefix(nat, "panic") || strings.HasPrefix(nat, "crash") || strings.HasPrefix(nat, "assert-fail")
				case "deadlock":
					repro = strings.HasPrefix(nat, "timeout")
				}
			}
			rp := filepath.Join(replayDir, fmt.Sprintf("%s-%s-%d.json", *prop, o.Name, i))
			switch {
			case repro && witnessOpen:
				sawWitness = true
				os.Remove(rp)
			case repro:
				violations++
				ok = false
				lines = append(lines, fmt.Sprintf("VIOLATION property=%s replay=%s", *prop, rp))
				lines = append(lines, fmt.Sprintf("  obligation=%s kind=%s label=%q native=%q inputs=%s", o.Name, f.Kind, f.Label, nat, shortNondets(f)))
			default:
				ok = false
				os.Remove(rp)
				lines = append(lines, fmt.Sprintf("INCONCLUSIVE property=%s obligation=%s reason=counterexample for %s %q did not reproduce natively (%q); model or stub too loose", *prop, o.Name, f.Kind, f.Label, nat))
			}
		}
		if witnessOpen {
			if sawWitness {
				lines = append(lines, fmt.Sprintf("KNOWN-FINDING: property=%s %s [%s]", *prop, kf.What, kf.ID))
			} else {
				lines = append(lines, fmt.Sprintf("NOTE property=%s known finding %s no longer reproduces on this tree (listed as open)", *prop, kf.ID))
			}
		}
		if ok {
			discharged++
		} else {
			inconclusive++
		}
		smp := map[string]any{"obligation": o.Name, "harness": o.Pkg + "." + o.Fn, "desc": o.Desc, "params": or.tier.Params, "paths": res.Paths,
			"completed_paths": res.Completed, "queries": res.Queries, "assertions_checked": res.Asserts, "solver_s": round3(res.SolverS), "wall_s": round3(or.wall),
			"validated_vectors": or.valid, "discharged": ok}
		for _, c := range covers {
			if cs, ok := res.CoverSamples[c]; ok {
				smp["witness_input_at_"+c] = shortVals(cs)
				break
			}
		}
		samples = append(samples, smp)
		stubs = append(stubs, o.Stubs...)
		outside = append(outside, o.Outside...)
		if o.Bounds != "" {
			bounds = append(bounds, o.Name+": "+o.Bounds)
		}
	}
	fnList := make([]string, 0, len(funcs))
	for f := range funcs {
		if !strings.Contains(f, "Verif") && !strings.Contains(f, "verif") {
			fnList = append(fnList, f)
		}
	}
	sort.Strings(fnList)
	for _, l := range lines {
		fmt.Println(l)
	}
	wall := time.Since(t0).Seconds()
	if states == 0 {
		states = 1
	}
	if transitions == 0 {
		transitions = 1
	}
	ev := map[string]any{
		"property_id": *prop,
		"tier":        *tierName,
		"seed":        seed,
		"level":       "model_checking",
		"coverage": map[string]any{
			"states":                        states,
			"transitions":                   transitions,
			"traces_validated_against_impl": validated,
			"samples":                       samples,
			"obligations":                   obligations,
			"discharged":                    discharged,
			"inconclusive":                  inconclusive,
			"solver_queries":                queries,
			"solver_s":                      round3(solverS),
			"solver":                        "z3 (one persistent `z3 -in` per worker, push/pop mirrors the decision trail)",
			"functions_encoded":             fnList,
			"bounds":                        uniq(bounds),
			"stubs":                         uniq(stubs),
			"outside_claim":                 uniq(outside),
			"exhaustive":                    inconclusive == 0,
			"explanation":                   "states = symbolic paths explored (each decided by the solver for all inputs on that path); transitions = SSA instructions interpreted; samples = the obligations with one solver-generated input reaching the assertion block each; traces_validated = path-end models replayed through the natively compiled harness and compared with the executor in concrete mode",
		},
		"assumptions": uniq(append(append([]string{}, stubs...), "SMT solver answers are correct; go/ssa lowering is faithful; executor semantics validated by native replay of path-end models")),
		"wall_s":      round3(wall),
		"violations":  violations,
	}
	eb, _ := json.MarshalIndent(ev, "", " ")
	os.MkdirAll(evidenceDir(), 0o755)
	os.WriteFile(filepath.Join(evidenceDir(), *prop+".json"), eb, 0o644)
	fmt.Printf("SUMMARY property=%s tier=%s obligations=%d discharged=%d inconclusive=%d violations=%d paths=%d queries=%d solver_s=%.1f validated=%d wall_s=%.1f\n",
		*prop, *tierName, obligations, discharged, inconclusive, violations, states, queries, solverS, validated, wall)
	if violations > 0 {
		return 1
	}
	return 0
}

// outRoot / evidenceDir can be redirected (VERIF_OUT, VERIF_EVIDENCE) so that runs against a scratch
// copy of the repository (seeded changes) do not disturb the registered evidence.
func outRoot() string {
	if d := os.Getenv("VERIF_OUT"); d != "" {
		return d
	}
	return filepath.Join(verifDir(), "out")
}

func evidenceDir() string {
	if d := os.Getenv("VERIF_EVIDENCE"); d != "" {
		return d
	}
	return filepath.Join(verifDir(), "evidence")
}

func oneLine(s string) string {
	s = strings.ReplaceAll(s, "\n", " ")
	if len(s) > 600 {
		s = s[:600] + "…"
	}
	return s
}

func round3(f float64) float64 { return float64(int64(f*1000)) / 1000 }

func uniq(in []string) []string {
	seen := map[string]bool{}
	out := []string{}
	for _, s := range in {
		if !seen[s] {
			seen[s] = true
			out = append(out, s)
		}
	}
	return out
}

func shortVals(vs []symgo.NondetVal) []string {
	var out []string
	for i, v := range vs {
		if i >= 24 {
			out = append(out, "…")
			break
		}
		out = append(out, v.Name+"="+v.Val)
	}
	return out
}

func shortNondets(f *symgo.Finding) string {
	return strings.Join(shortVals(f.Nondets), ",")
}

func mergeResults(rs []*symgo.Result) *symgo.Result {
	if len(rs) == 0 {
		return nil
	}
	m := rs[0]
	for _, r := range rs[1:] {
		if len(m.EndSamples) == 0 && len(r.EndSamples) > 0 {
			m.EndSamples, m.Concrete = r.EndSamples, r.Concrete
		}
		m.Paths += r.Paths
		m.Completed += r.Completed
		m.Instrs += r.Instrs
		m.Queries += r.Queries
		m.ModelHits += r.ModelHits
		m.Asserts += r.Asserts
		m.SolverS += r.SolverS
		if r.ExploreS > m.ExploreS {
			m.ExploreS = r.ExploreS
		}
		for k, v := range r.Covers {
			m.Covers[k] += v
		}
		for k, v := range r.Inconclusive {
			m.Inconclusive[k] += v
		}
		for _, f := range r.Findings {
			dup := false
			for _, g := range m.Findings {
				if g.Kind == f.Kind && g.Label == f.Label {
					g.Count += f.Count
					dup = true
				}
			}
			if !dup {
				m.Findings = append(m.Findings, f)
			}
		}
		fs := map[string]bool{}
		for _, f := range m.Funcs {
			fs[f] = true
		}
		for _, f := range r.Funcs {
			if !fs[f] {
				m.Funcs = append(m.Funcs, f)
			}
		}
		for k, v := range r.CoverSamples {
			if m.CoverSamples == nil {
				m.CoverSamples = map[string][]symgo.NondetVal{}
			}
			if _, ok := m.CoverSamples[k]; !ok {
				m.CoverSamples[k] = v
			}
		}
	}
	return m
}

func cmdReplay(args []string) int {
	if len(args) < 1 {
		fatal(fmt.Errorf("usage: vcheck replay <file>"))
	}
	b, err := os.ReadFile(args[0])
	if err != nil {
		fatal(err)
	}
	var rf replayFile
	if err := json.Unmarshal(b, &rf); err != nil {
		fatal(err)
	}
	outDir := filepath.Join(outRoot(), "replay-run")
	os.RemoveAll(outDir)
	os.MkdirAll(outDir, 0o755)
	defer os.RemoveAll(outDir)
	bin, err := buildNative(rf.Pkg, outDir, rf.WithPkgs)
	if err != nil {
		fatal(err)
	}
	abs, _ := filepath.Abs(args[0])
	outs, raw := runNative(bin, abs, &rf, 60*time.Second)
	fmt.Printf("replay of %s.%s: %s\n", rf.Pkg, rf.Fn, outs[0])
	if rf.Finding != nil {
		fmt.Printf("expected: %s %q\n", rf.Finding.Kind, rf.Finding.Label)
	}
	if strings.HasPrefix(outs[0], "pass") || strings.HasPrefix(outs[0], "assume-failed") {
		return 0
	}
	if os.Getenv("VERIF_VERBOSE") != "" {
		fmt.Println(raw)
	}
	fmt.Printf("VIOLATION property=%s replay=%s\n", rf.Property, abs)
	return 1
}
